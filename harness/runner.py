"""Parent side of ./vcheck: builds, spawns workers under a watchdog, merges, writes evidence.

Exit status: 0 property held on everything explored (KNOWN-FINDING lines allowed),
             1 at least one ``VIOLATION property=<id> replay=<path>`` line was printed,
             2 harness error (never reported as a violation).
"""
import argparse
import hashlib
import json
import os
import re
import shutil
import subprocess
import sys
import tempfile
import time

from . import build as build_mod

HERE = os.path.dirname(os.path.dirname(os.path.abspath(__file__)))
PY = build_mod.PY

CRASH_SIGNALS = (-11, -6, -7, -4, -8)      # SIGSEGV, SIGABRT, SIGBUS, SIGILL, SIGFPE
STALL_S = float(os.environ.get("VERIF_STALL_S", "120"))       # no heartbeat for this long -> suspected hang
RERUN_S = float(os.environ.get("VERIF_RERUN_S", "240"))       # the suspected case alone gets this long

# (builds x shards) per tier
PLAN = {"quick": 2, "thorough": 8}


def slug(s):
    return re.sub(r"[^A-Za-z0-9_.-]+", "_", s)[:60]


def worker_cmd(prop, binfo, bname, extra):
    env = dict(os.environ)
    env["PYTHONPATH"] = HERE
    env["PYTHONHASHSEED"] = "0"
    env.setdefault("PYTHONDONTWRITEBYTECODE", "1")
    cmd = [PY, "-m", "harness.worker", prop, "--builddir", binfo[bname], "--build", bname] + extra
    return cmd, env


def known_findings():
    path = os.path.join(HERE, "KNOWN_FINDINGS.txt")
    out = []
    if os.path.exists(path):
        for line in open(path):
            line = line.strip()
            m = re.match(r"open:\s+property=(\S+)\s+sig=(\S+)\s+replay=(\S+)\s+(.*)", line)
            if m:
                out.append({"prop": m.group(1), "sig": m.group(2), "replay": m.group(3), "text": m.group(4)})
    return out


def save_replay(prop, v):
    d = os.path.join(HERE, "replays", "found")
    os.makedirs(d, exist_ok=True)
    doc = {"property": prop, "sub": v["sub"], "build": v["build"], "sig": v["sig"], "msg": v["msg"], "case": v["case"]}
    h = hashlib.sha1(json.dumps(doc["case"], sort_keys=True).encode()).hexdigest()[:10]
    path = os.path.join(d, "%s-%s-%s.json" % (prop, slug(v["sig"]), h))
    with open(path, "w") as fh:
        json.dump(doc, fh, indent=1, sort_keys=True)
    return os.path.relpath(path, HERE)


def run_replay(prop, binfo, path, builds):
    """Re-executes one saved case through the same interpreter and oracle, without Hypothesis."""
    doc = json.load(open(path))
    rc = 0
    tmp = tempfile.mkdtemp(prefix="vreplay-")
    try:
        want = [doc["build"]] if doc.get("build") in builds and doc.get("both_builds") is not True else builds
        if doc.get("build") not in builds:
            want = builds
        for b in want:
            out = os.path.join(tmp, "out-%s.json" % b)
            cmd, env = worker_cmd(prop, binfo, b, ["--replay", os.path.abspath(path), "--out", out])
            try:
                p = subprocess.run(cmd, env=env, cwd=HERE, timeout=RERUN_S)
            except subprocess.TimeoutExpired:
                print("VIOLATION property=%s replay=%s   (hang: no result within %ds, build %s)" % (prop, path, RERUN_S, b))
                rc = 1
                continue
            if p.returncode in CRASH_SIGNALS:
                print("VIOLATION property=%s replay=%s   (crash: the interpreter was killed by signal %d, build %s)" % (prop, path, -p.returncode, b))
                rc = 1
                continue
            if p.returncode != 0:
                print("harness error while replaying on build %s" % b, file=sys.stderr)
                return 2
            res = json.load(open(out))
            for v in res["violations"]:
                print("VIOLATION property=%s replay=%s   [%s/%s] %s: %s" % (prop, path, b, v["sub"], v["sig"], v["msg"][:300]))
                rc = 1
            if not res["violations"]:
                print("replay on build %s: property holds for this case" % b)
    finally:
        shutil.rmtree(tmp, ignore_errors=True)
    return rc


def main(argv=None):
    ap = argparse.ArgumentParser(prog="vcheck")
    ap.add_argument("prop")
    ap.add_argument("--tier", default=os.environ.get("VERIF_TIER", "quick"), choices=["quick", "thorough"])
    ap.add_argument("--replay")
    ap.add_argument("--subs", default="")
    ap.add_argument("--shards", type=int, default=0)
    ap.add_argument("--builds", default="py,cy")
    a = ap.parse_args(argv)
    prop = a.prop.upper()
    seed = int(os.environ.get("VERIF_SEED", "1") or "1")
    t0 = time.time()

    try:
        binfo = build_mod.ensure()
    except Exception as e:  # cannot even copy the sources
        print("harness error: build failed: %r" % (e,), file=sys.stderr)
        return 2
    builds = [b for b in a.builds.split(",") if binfo.get(b)]
    assumptions = []
    if not binfo.get("cy"):
        assumptions.append("Cython build of the working tree FAILED; verdict is for the pure-Python build only: " + (binfo.get("cy_error") or "")[-300:])
        print("note: Cython build failed; running the pure-Python build only", file=sys.stderr)

    if a.replay:
        return run_replay(prop, binfo, a.replay, builds)

    nshards = a.shards or PLAN[a.tier]
    tmp = tempfile.mkdtemp(prefix="vcheck-%s-" % prop)
    procs = []
    try:
        for b in builds:
            for s in range(nshards):
                out = os.path.join(tmp, "out-%s-%d.json" % (b, s))
                hb = os.path.join(tmp, "hb-%s-%d.json" % (b, s))
                extra = ["--shard", "%d/%d" % (s, nshards), "--tier", a.tier, "--seed", str(seed), "--out", out, "--hb", hb]
                if a.subs:
                    extra += ["--subs", a.subs]
                cmd, env = worker_cmd(prop, binfo, b, extra)
                errf = open(os.path.join(tmp, "err-%s-%d.txt" % (b, s)), "w")
                p = subprocess.Popen(cmd, env=env, cwd=HERE, stdout=errf, stderr=subprocess.STDOUT)
                procs.append({"p": p, "b": b, "s": s, "out": out, "hb": hb, "err": errf.name, "start": time.time(), "hung": None})

        # ---- watchdog -----------------------------------------------------------
        live = list(procs)
        while live:
            time.sleep(0.2)
            for w in list(live):
                if w["p"].poll() is not None:
                    live.remove(w)
                    continue
                try:
                    last = os.path.getmtime(w["hb"])
                except OSError:
                    last = w["start"]
                last = max(last, w["start"])
                if time.time() - last > STALL_S:
                    try:
                        w["hung"] = json.load(open(w["hb"]))
                    except Exception:
                        w["hung"] = {"sub": None, "case": None}
                    w["p"].kill()
                    w["p"].wait()
                    live.remove(w)

        # ---- merge --------------------------------------------------------------
        harness_error = False
        merged = {"evaluations": 0, "classes": {}, "nontrivial": set(), "samples": [], "violations": [], "excluded_known": 0, "sub_stats": {}, "notes": [], "rule": "", "assumptions": []}
        for w in procs:
            if w["hung"] is not None:
                h = w["hung"]
                if h.get("case") is None:
                    print("harness error: worker %s/%d stalled before its first case\n%s" % (w["b"], w["s"], open(w["err"]).read()[-2000:]), file=sys.stderr)
                    harness_error = True
                    continue
                v = {"sub": h["sub"], "sig": "%s.hang" % prop, "msg": "no progress for %ds while executing this case (lost wake-up / livelock?)" % STALL_S, "case": h["case"], "build": w["b"]}
                path = save_replay(prop, v)
                # confirm alone, with a much larger bound, before calling it a violation
                out = os.path.join(tmp, "hang-%s-%d.json" % (w["b"], w["s"]))
                cmd, env = worker_cmd(prop, binfo, w["b"], ["--replay", os.path.join(HERE, path), "--out", out])
                try:
                    p = subprocess.run(cmd, env=env, cwd=HERE, timeout=RERUN_S, stdout=subprocess.DEVNULL, stderr=subprocess.DEVNULL)
                    confirmed = False
                    if p.returncode == 0:
                        res = json.load(open(out))
                        for vv in res["violations"]:
                            merged["violations"].append(vv)
                        merged["notes"].append("worker %s/%d stalled %ds on a case that completes when run alone: inconclusive, not reported as a hang" % (w["b"], w["s"], STALL_S))
                    else:
                        harness_error = True
                except subprocess.TimeoutExpired:
                    confirmed = True
                if confirmed:
                    merged["violations"].append(v)
                continue
            if w["p"].returncode in CRASH_SIGNALS:
                # the interpreter itself died (segmentation fault / abort) in the middle of a case: confirm alone
                try:
                    h = json.load(open(w["hb"]))
                except Exception:
                    h = {}
                if h.get("case") is not None:
                    v = {"sub": h["sub"], "sig": "%s.crash" % prop, "msg": "the interpreter was killed by signal %d while executing this case" % -w["p"].returncode, "case": h["case"], "build": w["b"]}
                    path = save_replay(prop, v)
                    out = os.path.join(tmp, "crash-%s-%d.json" % (w["b"], w["s"]))
                    cmd, env = worker_cmd(prop, binfo, w["b"], ["--replay", os.path.join(HERE, path), "--out", out])
                    try:
                        p = subprocess.run(cmd, env=env, cwd=HERE, timeout=RERUN_S, stdout=subprocess.DEVNULL, stderr=subprocess.DEVNULL)
                        if p.returncode == w["p"].returncode:
                            merged["violations"].append(v)
                            continue
                    except subprocess.TimeoutExpired:
                        pass
            if w["p"].returncode != 0:
                print("harness error in worker %s/%d (exit %s):\n%s" % (w["b"], w["s"], w["p"].returncode, open(w["err"]).read()[-3000:]), file=sys.stderr)
                harness_error = True
                continue
            res = json.load(open(w["out"]))
            merged["evaluations"] += res["evaluations"]
            merged["excluded_known"] += res["excluded_known"]
            merged["nontrivial"].update(res["nontrivial_hashes"])
            for k, n in res["classes"].items():
                merged["classes"][k] = merged["classes"].get(k, 0) + n
            for k, st in res["sub_stats"].items():
                m = merged["sub_stats"].setdefault(k, {"evaluations": 0, "nontrivial": 0})
                m["evaluations"] += st["evaluations"]
                m["nontrivial"] += st["nontrivial"]
            if len(merged["samples"]) < 8:
                merged["samples"].extend(res["samples"][: max(1, 8 // len(procs))])
            merged["violations"].extend(res["violations"])
            merged["notes"].extend(res["notes"])
            merged["rule"] = res.get("rule") or merged["rule"]
            merged["assumptions"] = res.get("assumptions") or merged["assumptions"]

        if harness_error:
            return 2

        # ---- verdict ------------------------------------------------------------
        known = [k for k in known_findings() if k["prop"] == prop]
        reported = {}
        rc = 0
        n_viol = 0
        for v in merged["violations"]:
            key = v["sig"]
            if key in reported:
                continue
            k = next((k for k in known if k["sig"] == v["sig"]), None)
            if k is not None:
                reported[key] = "known"
                print("KNOWN-FINDING: property=%s %s" % (prop, k["text"]))
                continue
            path = save_replay(prop, v)
            reported[key] = path
            n_viol += 1
            rc = 1
            print("VIOLATION property=%s replay=%s   [%s/%s] %s: %s" % (prop, path, v["build"], v["sub"], v["sig"], v["msg"][:400]))

        samples = merged["samples"][:8]
        ev = {
            "property_id": prop, "tier": a.tier, "seed": seed, "level": "exploration",
            "coverage": {
                "evaluations": merged["evaluations"],
                "distinct_nontrivial": len(merged["nontrivial"]),
                "rule": merged["rule"],
                "samples": samples,
                "classes": dict(sorted(merged["classes"].items())),
                "per_subcheck": merged["sub_stats"],
                "builds": builds,
                "shards_per_build": nshards,
                "excluded_known": merged["excluded_known"],
                "source_digest": binfo["digest"],
                "notes": merged["notes"],
            },
            "assumptions": assumptions + list(merged["assumptions"]),
            "wall_s": round(time.time() - t0, 2),
            "violations": n_viol,
        }
        os.makedirs(os.path.join(HERE, "evidence"), exist_ok=True)
        with open(os.path.join(HERE, "evidence", "%s.json" % prop), "w") as fh:
            json.dump(ev, fh, indent=1, sort_keys=True)
            fh.write("\n")
        print("%s %s: %d cases (%d distinct non-trivial) on builds %s in %.1fs; violations=%d" % (prop, a.tier, merged["evaluations"], len(merged["nontrivial"]), ",".join(builds), time.time() - t0, n_viol))
        return rc
    finally:
        for w in procs:
            if w["p"].poll() is None:
                w["p"].kill()
        shutil.rmtree(tmp, ignore_errors=True)


if __name__ == "__main__":
    sys.exit(main())
