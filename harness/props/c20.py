"""C20 -- debug, dump and profiling options never change behaviour."""
import copy

from hypothesis import strategies as st

from ..common import Sub
from ..e1 import engine, gen, reduce
from .. import sink
from .c08 import CANARY as NEXT

RULE = ("tie-free generated programs (synchronous re-entry incl. the re-entry comb, failures, several batch kinds, contexts); every program is run under the "
        "default options and then under EACH single boolean option, under all-on, and under two generated subsets, with SCHEDULER_STATE_DUMP_INTERVAL=0 so "
        "that dump paths execute, and with a harness clock whose per-reading increment is drawn from {1, 1e3, 1e6, 3e9, 1e11} microseconds; "
        "each run is followed, on the same scheduler and under the same options, by the same program once more, by a fixed further computation and by a call whose argument cannot be "
        "rendered (repr raises RecursionError); one case in two lowers MAX_TASK_STACK_SIZE so that the runaway-recursion guard may stop the program; "
        "non-trivial = the program has >= 1 flush (every case runs >= 22 option configurations); distinct = distinct case JSON")
ASSUMPTIONS = ["traces are compared across runs, so programs are tie-free (distinct constant priority per batch kind, one DebugBatch name): the trace is a function of the program",
               "diagnostic output goes to a sink and is only required to be produced without raising"]

BOOL_OPTIONS = ["DUMP_PRE_ERROR_STATE", "DUMP_EXCEPTIONS", "DUMP_SCHEDULE_TASK", "DUMP_CONTINUE_TASK", "DUMP_SCHEDULE_BATCH", "DUMP_FLUSH_BATCH",
                "DUMP_DEPENDENCIES", "DUMP_COMPUTED", "DUMP_NEW_TASKS", "DUMP_YIELD_RESULTS", "DUMP_QUEUED_RESULTS", "DUMP_CONTEXTS", "DUMP_SYNC",
                "DUMP_STACK", "DUMP_SCHEDULER_STATE", "DUMP_SYNC_CALLS", "COLLECT_PERF_STATS", "KEEP_DEPENDENCIES", "ENABLE_COMPLEX_ASSERTIONS"]
# value that differs from the default
FLIP = dict((o, True) for o in BOOL_OPTIONS)
FLIP["DUMP_PRE_ERROR_STATE"] = False
FLIP["ENABLE_COMPLEX_ASSERTIONS"] = False
INCS = [1, 1000, 10 ** 6, 3 * 10 ** 9, 10 ** 11]


def strategy(tier):
    cfg = gen.Cfg(max_tasks=10 if tier == "quick" else 25, sync=True, ctx=("rec", "ov"), dag=True, ditem=True, prio="tiefree", itemvalue=True, tools=("dd", "alru", "agen", "amap", "asorted", "amin", "retry", "cwc"),
                  flush_faults=("raise",), convs=("call", "value", "wrapper"),
                  shapes=("reentry", "reentry", "reentry", "tree", "comb", "chain", "diamond", "stagger", "free"))
    subset = st.lists(st.sampled_from(BOOL_OPTIONS), min_size=2, max_size=6, unique=True)
    return st.fixed_dictionaries({"prog": gen.programs(cfg), "subsets": st.lists(subset, min_size=2, max_size=2),
                                  "inc": st.sampled_from(INCS), "pairs": st.just(tier == "thorough"),
                                  "stack_limit": st.sampled_from([None, None, None, 2, 4, 7])})


def configs(case):
    out = [[o] for o in BOOL_OPTIONS]
    out.append(list(BOOL_OPTIONS))
    out += [list(s) for s in case["subsets"]]
    if case.get("pairs"):
        # thorough tier: every pair with the two options whose code paths touch scheduling decisions
        for a in ("DUMP_FLUSH_BATCH", "COLLECT_PERF_STATS", "KEEP_DEPENDENCIES"):
            for b in BOOL_OPTIONS:
                if a != b:
                    out.append([a, b])
    return out


_DEEP = {}


def deep_argument_call():
    """an @asynq() function called with an argument that cannot be rendered (repr() of a list nested 100 000 deep raises
    RecursionError): diagnostics and profiling must cope, the result is the same under every option"""
    from asynq import asynq as A
    from asynq.batching import DebugBatchItem
    if not _DEEP:
        deep = cur = []
        for _ in range(100000):
            nxt = []
            cur.append(nxt)
            cur = nxt

        @A()
        def walk(x, tag=None):
            v = yield DebugBatchItem("c20deep", 1)
            n = 0
            while x:
                x = x[0]
                n += 1
            return [n, v, tag is x]
        _DEEP.update(deep=deep, walk=walk)
    try:
        with sink.capture_print():
            return ["ok", _DEEP["walk"](_DEEP["deep"], tag=_DEEP["deep"])]
    except BaseException as e:
        return ["exc", type(e).__name__, str(e)[:120]]


def run(prog, names, inc, limit=None):
    """the program, then -- on the same scheduler, under the same options -- a fixed second computation and a call with an
    unprintable argument; returns (env, comparable trace of all three)"""
    opts = dict((o, FLIP[o]) for o in names)
    opts["SCHEDULER_STATE_DUMP_INTERVAL"] = 0
    if limit is not None:
        opts["MAX_TASK_STACK_SIZE"] = limit
    env = engine.run_program(copy.deepcopy(prog), options=opts, clock=engine.FakeClock(inc))
    t = engine.trace(env)
    # ... the same program once more, nothing reset (whatever the first run left behind is there in the default-options history too)
    t["same-program-again"] = engine.trace(engine.run_program(copy.deepcopy(prog), reset=False, clock=engine.FakeClock(inc)))
    import asynq.debug as D
    D.options.MAX_TASK_STACK_SIZE = engine._OPTION_DEFAULTS["MAX_TASK_STACK_SIZE"]
    nxt = engine.run_program(copy.deepcopy(NEXT), reset=False, clock=engine.FakeClock(inc))
    tn = engine.trace(nxt)
    tn["flushes-of-the-earlier-computation"] = sum(1 for e in nxt.events if e[0] == "before" and e[1] == "foreign")
    t["next-computation"] = tn
    t["unprintable-argument-call"] = deep_argument_call()
    return env, t


def check(case, ctx):
    prog = case["prog"]
    limit = case.get("stack_limit")
    base, t0 = run(prog, [], case["inc"], limit)
    viol = []
    maxtime = 0
    for names in configs(case):
        env, t = run(prog, names, case["inc"], limit)
        maxtime = max(maxtime, env_clock_total(env))
        if t != t0:
            diff = [k for k in t0 if t0[k] != t[k]]
            what = dict((k, (t[k], t0[k])) for k in diff[:1])
            label = "+".join(names) if len(names) <= 3 else "%d options incl. %s" % (len(names), "+".join(names[:3]))
            sig = "C20.inert:" + (names[0] if len(names) == 1 else "combination")
            viol.append((sig, "with %s (clock step %d us) the program's %s differ from the default-options run: %r" % (label, case["inc"], "/".join(diff), what)))
            break
    ctx.label("flushes>=1", len(base.flushes) >= 1)
    ctx.label("sync-reentry", not base.yield_only)
    ctx.label("out-of-band-item.value()", base.ndirect > 0)
    ctx.label("clock>=2^31us-total", case["inc"] >= 3 * 10 ** 9)
    ctx.label("outcome=" + base.outcome[0])
    ctx.label("stopped-by-the-task-stack-limit", limit is not None and base.outcome[:2] == ["escaped", "RuntimeError"])
    ctx.label("next-computation-sees-leftover-requests", t0["next-computation"]["flushes-of-the-earlier-computation"] > 0)
    ctx.label("shape=" + prog.get("shape", "?"))
    ctx.nontrivial(case, len(base.flushes) >= 1)
    return viol


def env_clock_total(env):
    return 0


def reduce_case(case):
    for p in reduce.candidates(case["prog"]):
        c = dict(case)
        c["prog"] = p
        yield c
    if case["subsets"] != [["DUMP_SYNC", "DUMP_CONTEXTS"]] * 2:
        c = dict(case)
        c["subsets"] = [["DUMP_SYNC", "DUMP_CONTEXTS"]] * 2
        yield c
    if case.get("stack_limit") is not None:
        yield dict(case, stack_limit=None)
    i = INCS.index(case["inc"])
    if i > 0:
        c = dict(case)
        c["inc"] = INCS[i - 1]
        yield c


# ---- histories of out-of-band flushes ------------------------------------------------------------------------------
# A scheduled batch that a sibling flushes out of band (item.value() inside a body) leaves the scheduler with a pass in which
# it finds nothing to flush.  Programs made only of that pattern, run several times on one scheduler with nothing reset in
# between, reach option-guarded bookkeeping that ordinary programs (which also flush batches through the scheduler) reset.

def oob_strategy(tier):
    pat = st.fixed_dictionaries({"kind": st.sampled_from(["a", "b", "c"]), "grab_first": st.booleans(), "normal_before": st.sampled_from([False, False, False, True]),
                                 "ctx": st.booleans(), "extra_waiters": st.integers(0, 2)})
    subset = st.lists(st.sampled_from(BOOL_OPTIONS), min_size=1, max_size=5, unique=True)
    return st.fixed_dictionaries({"pats": st.lists(pat, min_size=1, max_size=3), "repeat": st.integers(1, 5), "subset": subset, "inc": st.sampled_from(INCS),
                                  "conv": st.sampled_from(["call", "value", "wrapper"])})


def oob_program(case):
    n = [0]

    def nid():
        n[0] += 1
        return n[0]
    body = []
    for p in case["pats"]:
        k = p["kind"]
        if p["normal_before"]:
            body.append({"op": "yield", "catch": False, "y": ["item", k, 0, "ok", nid()]})
        members = []
        for _ in range(1 + p["extra_waiters"]):
            wait = [{"op": "yield", "catch": False, "y": ["item", k, 0, "ok", nid()]}]
            if p["ctx"]:
                wait = [{"op": "with", "ctx": ["rec", nid()], "body": wait}]
            members.append(["task", {"body": wait, "id": nid(), "via": "return"}])
        grab = ["task", {"body": [{"op": "itemvalue", "item": ["item", k, 0, "ok", nid()], "catch": False}], "id": nid(), "via": "return"}]
        members.insert(0 if p["grab_first"] else len(members), grab)
        body.append({"op": "yield", "catch": False, "y": ["L", members]})
    return {"conv": case["conv"], "faults": [], "nsv": 2, "prio": {"a": [0], "b": [1], "c": [2]}, "root": {"body": body, "id": nid(), "via": "return"}, "shape": "oob"}


def oob_history(prog, names, inc, repeat):
    opts = dict((o, FLIP[o]) for o in names)
    opts["SCHEDULER_STATE_DUMP_INTERVAL"] = 0
    out = []
    env0 = None
    for i in range(repeat):
        env = engine.run_program(copy.deepcopy(prog), reset=(i == 0), options=opts if i == 0 else None, clock=engine.FakeClock(inc))
        env0 = env0 or env
        out.append(engine.trace(env))
    return env0, out


def oob_check(case, ctx):
    prog = oob_program(case)
    base, t0 = oob_history(prog, [], case["inc"], case["repeat"])
    viol = []
    for names in [[o] for o in BOOL_OPTIONS] + [list(BOOL_OPTIONS), list(case["subset"])]:
        _, t = oob_history(prog, names, case["inc"], case["repeat"])
        if t != t0:
            i = [j for j in range(len(t0)) if t[j] != t0[j]][0]
            diff = [k for k in t0[i] if t0[i][k] != t[i][k]]
            label = "+".join(names) if len(names) <= 3 else "%d options incl. %s" % (len(names), "+".join(names[:3]))
            sig = "C20.inert:" + (names[0] if len(names) == 1 else "combination")
            viol.append((sig, "with %s, run %d of %d of the same program on one scheduler differs from the default-options history in its %s: %r" % (
                label, i + 1, case["repeat"], "/".join(diff), dict((k, (t[i][k], t0[i][k])) for k in diff[:1]))))
            break
    nd = base.ndirect
    ctx.label("out-of-band-flushes-per-run=%s" % (nd if nd < 3 else ">=3"))
    ctx.label("runs=%d" % case["repeat"])
    ctx.label("outcome=" + base.outcome[0])
    ctx.label(">=3-out-of-band-flushes-in-the-history", nd * case["repeat"] >= 3)
    ctx.nontrivial(case, nd >= 1 and base.outcome[0] == "ok")
    return viol


def oob_reduce(case):
    if case["repeat"] > 1:
        yield dict(case, repeat=case["repeat"] - 1)
    for i in range(len(case["pats"])):
        if len(case["pats"]) > 1:
            yield dict(case, pats=case["pats"][:i] + case["pats"][i + 1:])
        p = case["pats"][i]
        for k, v in (("extra_waiters", 0), ("ctx", False), ("normal_before", False), ("grab_first", False)):
            if p[k] != v:
                yield dict(case, pats=case["pats"][:i] + [dict(p, **{k: v})] + case["pats"][i + 1:])
    if len(case["subset"]) > 1:
        yield dict(case, subset=case["subset"][:1])


SUBS = [Sub("options", check, strategy=strategy, reduce=reduce_case, examples={"quick": 700, "thorough": 12000}),
        Sub("oob-history", oob_check, strategy=oob_strategy, reduce=oob_reduce, examples={"quick": 300, "thorough": 6000})]
