"""C17 -- async generators deliver their Values in order, and only those."""
from hypothesis import strategies as st

from ..common import Sub
from ..e1 import engine

RULE = ("generator bodies as operation lists over {Value(v), await a constant future, await a batch item, await a child task, await a function that itself tries to advance the generator (must be refused: the task handed out last is mid-flight), await a dict / tuple / list of futures, bare yield} (any interleaving, trailing "
        "awaits, no Values, empty), optionally consumed through an outer async generator (which skips the inner generator's end marker itself or naively re-publishes whatever each task evaluates to, and may publish 0-2 more Values afterwards); consumers: list_of_generator, repeated take_first(n) for "
        "0 <= n <= len+2 on one generator (position-pointer model + bound on how far the body has advanced), manual next() misuse before the previous task "
        "is computed, and advancing after exhaustion. non-trivial = the body has an await after its last Value, or a take_first with n = 0 or n > remaining, "
        "or >= 2 take_first calls on one generator; distinct = distinct case JSON Mode several: generator objects of one function alive together, exhausted ones kept while new ones are created.")
ASSUMPTIONS = ["bodies that raise are not generated (the property speaks of Values and awaits)"]


def strategy(tier):
    op = st.one_of(st.tuples(st.just("V"), st.integers(0, 9)), st.tuples(st.just("V"), st.integers(0, 9)), st.tuples(st.just("const"), st.integers(0, 9)),
                   st.tuples(st.just("item"), st.integers(0, 9)), st.tuples(st.just("task"), st.integers(0, 9)), st.tuples(st.just("probe"), st.integers(0, 9)),
                   st.tuples(st.sampled_from(["dict", "tuple", "list", "none"]), st.integers(0, 9))).map(list)
    return st.fixed_dictionaries({"body": st.lists(op, max_size=8 if tier == "quick" else 16), "ns": st.lists(st.integers(0, 6), min_size=1, max_size=4),
                                  "nested": st.booleans(), "outer": st.fixed_dictionaries({"filter": st.booleans(), "tail": st.lists(st.integers(10, 19), max_size=2)}), "mode": st.sampled_from(["list", "take", "take", "manual", "several"])})


def check(case, ctx):
    from asynq import asynq as A, ConstFuture, async_generator, Value, list_of_generator, take_first, END_OF_GENERATOR
    from asynq.batching import DebugBatchItem
    engine.reset_process_state()
    opl, ns, nested, mode = case["body"], case["ns"], case["nested"], case["mode"]
    pos = [0]
    viol = []
    wrong_awaits = []      # (operation index, kind, awaited value, what the body received instead)

    @A()
    def child(v):
        yield DebugBatchItem("g", 0)
        return v

    cur = [None]
    probes = []

    @A()
    def prober(v):
        # runs while the task most recently handed out by the generator is in the middle of its work (it awaits this function),
        # i.e. is not computed: advancing the generator now must be refused
        if cur[0] is not None:
            try:
                next(cur[0])
                probes.append("advanced")
            except RuntimeError:
                probes.append("refused")
            except BaseException as e:
                probes.append("raised %r" % (e,))
        return v
        yield

    @async_generator()
    def g():
        for i, (k, v) in enumerate(opl):
            pos[0] = i + 1
            if k == "V":
                yield Value(v)
            elif k == "const":
                r = yield ConstFuture(v)
                if r != v:
                    wrong_awaits.append((i, k, v, r))
            elif k == "item":
                r = yield DebugBatchItem("g", v)
                if r != v:
                    wrong_awaits.append((i, k, v, r))
            elif k == "task":
                r = yield child.asynq(v)
                if r != v:
                    wrong_awaits.append((i, k, v, r))
            elif k == "probe":
                r = yield prober.asynq(v)
                if r != v:
                    wrong_awaits.append((i, k, v, r))
            elif k == "dict":
                # every shape a task may await is awaitable here too: a dict / tuple / list of futures, nothing at all
                r = yield {"a": ConstFuture(v), "b": child.asynq(v)}
                if r != {"a": v, "b": v}:
                    wrong_awaits.append((i, k, v, r))
            elif k == "tuple":
                r = yield (ConstFuture(v), DebugBatchItem("g", v))
                if r != (v, v):
                    wrong_awaits.append((i, k, v, r))
            elif k == "list":
                r = yield [child.asynq(v), ConstFuture(v)]
                if r != [v, v]:
                    wrong_awaits.append((i, k, v, r))
            else:
                r = yield
                if r is not None:
                    wrong_awaits.append((i, k, v, r))

    @async_generator()
    def outer():
        # re-publishes the inner generator's items, either skipping the inner generator's end marker itself or naively wrapping whatever
        # each task evaluates to (then the consumers have to keep the marker out of their results), and may publish more Values afterwards
        for task in g():
            v = yield task
            if v is END_OF_GENERATOR and outer_cfg["filter"]:
                continue
            yield Value(v)
        for v in outer_cfg["tail"]:
            yield Value(v)

    def mk():
        pos[0] = 0
        cur[0] = outer() if nested else g()
        return cur[0]
    outer_cfg = case.get("outer") or {"filter": True, "tail": []}
    vals = [v for k, v in opl if k == "V"] + (list(outer_cfg["tail"]) if nested else [])
    vidx = [i for i, (k, v) in enumerate(opl) if k == "V"]
    desc = "body %r%s" % (opl, " consumed through an outer generator" if nested else "")

    def bad(clause, msg):
        viol.append(("C17." + clause, "%s: %s" % (desc, msg)))
    if mode == "list":
        try:
            got = list_of_generator(mk())
        except BaseException as e:
            got = ["raised", repr(e)]
        if got != vals:
            bad("list", "list_of_generator returned %r, the Values in program order are %r" % (got, vals))
    elif mode == "take":
        gen = mk()
        ptr = 0
        for n in ns:
            before = pos[0]
            try:
                got = take_first(gen, n)
            except BaseException as e:
                got = ["raised", repr(e)]
            exp = vals[ptr:ptr + n]
            if got != exp:
                bad("take_first", "take_first calls %r: take_first(gen, %d) returned %r, expected %r (%d Values already taken)" % (ns, n, got, exp, ptr))
                break
            if any(x is END_OF_GENERATOR for x in got):
                bad("marker", "END_OF_GENERATOR appears in a result")
            ptr += len(exp)
            if not nested:
                # consumption bound: the body has advanced at most through the last Value handed out
                # (or to its end if the Values ran out)
                if len(exp) == n:
                    limit = (vidx[ptr - 1] + 1) if ptr else 0
                    if pos[0] > max(limit, before):      # (an earlier call may already have advanced further)
                        bad("consume", "take_first calls %r: after take_first(gen, %d) the body has advanced to operation %d, needed at most %d" % (ns, n, pos[0], limit))
                        break
            if len(exp) < n:
                # the Values ran out: the generator is exhausted and keeps raising StopIteration
                for _ in range(2):
                    try:
                        next(gen)
                        bad("exhausted", "next() on an exhausted generator did not raise StopIteration")
                    except StopIteration:
                        pass
                    except BaseException as e:
                        bad("exhausted", "next() on an exhausted generator raised %r" % (e,))
    elif mode == "several":
        # several generator objects of the same function alive together, and an exhausted one kept around
        a, b = mk(), mk()
        cur[0] = None        # (no re-entrant probing when several generators are alive: the body cannot tell which one it belongs to)
        n0 = ns[0] % (len(vals) + 1)
        for name, thunk, exp in (("take_first(A, %d)" % n0, lambda: take_first(a, n0), vals[:n0]),
                                 ("list_of_generator(B), B created before A was advanced", lambda: list_of_generator(b), vals),
                                 ("list_of_generator(A) after B was exhausted", lambda: list_of_generator(a), vals[n0:])):
            try:
                got = thunk()
            except BaseException as e:
                got = ["raised", repr(e)]
            if got != exp:
                bad("several", "%s returned %r, expected %r" % (name, got, exp))
                break
        if not viol:
            c = mk()                     # a third object, created while the exhausted A and B are still referenced
            for name, old_gen in (("A", a), ("B", b)):
                try:
                    next(old_gen)
                    bad("exhausted", "next() on exhausted generator %s returned something after another generator of the function was created" % name)
                except StopIteration:
                    pass
                except BaseException as e:
                    bad("exhausted", "next() on exhausted generator %s raised %r" % (name, e))
            try:
                got = list_of_generator(c)
            except BaseException as e:
                got = ["raised", repr(e)]
            if got != vals and not viol:
                bad("several", "list_of_generator(C), C created while exhausted generators of the same function were alive, returned %r, expected %r" % (got, vals))
    else:
        # manual iteration with misuse: advance before the previously returned task is computed
        gen = mk()
        out = []
        for step in range(len(opl) + 3):
            try:
                t = next(gen)
            except StopIteration:
                break
            except BaseException as e:
                bad("manual", "next() raised %r at step %d" % (e, step))
                break
            if not t.is_computed():
                for attempt in (1, 2):       # the guard must hold for every premature attempt, not only the first
                    try:
                        next(gen)
                        bad("guard", "advancing before the previously returned task is computed did not raise RuntimeError (attempt %d)" % attempt)
                    except RuntimeError:
                        pass
                    except BaseException as e:
                        bad("guard", "advancing before the previous task is computed raised %r instead of RuntimeError" % (e,))
            v = t.value()
            if v is not END_OF_GENERATOR:
                out.append(v)
        if not viol and out != vals:
            bad("manual", "documented iteration yielded %r, expected %r" % (out, vals))
        if not viol:
            try:
                next(gen)
                bad("exhausted", "next() after exhaustion did not raise StopIteration")
            except StopIteration:
                pass
    if any(p != "refused" for p in probes):
        viol.insert(0, ("C17.guard", "%s: next(gen) called from a function the body awaits -- the task handed out last is in the middle of its work, not computed -- %s instead of raising RuntimeError" % (
            desc, [p for p in probes if p != "refused"][0])))
    if wrong_awaits and not viol:
        i, k, v, r = wrong_awaits[0]
        viol.append(("C17.await", "%s: operation %d awaited a %s future whose result is %r but the body was resumed with %r" % (desc, i, k, v, r)))
    trailing = bool(opl) and opl[-1][0] != "V"
    ctx.label("mode=" + mode)
    ctx.label("trailing-await", trailing)
    ctx.label("no-values", not vals)
    ctx.label("n=0", mode == "take" and 0 in ns)
    ctx.label("nested", nested)
    ctx.label("re-entrant-advance-attempted-from-an-awaited-function", bool(probes))
    ctx.label("outer-forwards-the-inner-end-marker", nested and not outer_cfg["filter"] and trailing)
    ctx.label("outer-publishes-more-Values-afterwards", nested and bool(outer_cfg["tail"]))
    ctx.label("structured-or-empty-await", any(k in ("dict", "tuple", "list", "none") for k, v in opl))
    ctx.nontrivial(case, trailing or mode == "several" or (mode == "take" and (0 in ns or len(ns) >= 2 or any(n > len(vals) for n in ns))))
    return viol


def reduce_case(case):
    b = case["body"]
    for i in range(len(b)):
        yield dict(case, body=b[:i] + b[i + 1:])
    ns = case["ns"]
    for i in range(len(ns)):
        if len(ns) > 1:
            yield dict(case, ns=ns[:i] + ns[i + 1:])
        if ns[i] > 0:
            yield dict(case, ns=ns[:i] + [ns[i] - 1] + ns[i + 1:])
    if case["nested"]:
        yield dict(case, nested=False)
        o = case.get("outer")
        if o and o["tail"]:
            yield dict(case, outer=dict(o, tail=o["tail"][:-1]))
        if o and not o["filter"]:
            yield dict(case, outer=dict(o, filter=True))
    for i, (k, v) in enumerate(b):
        if k != "V" and k != "const":
            yield dict(case, body=b[:i] + [["const", v]] + b[i + 1:])


SUBS = [Sub("bodies", check, strategy=strategy, reduce=reduce_case, examples={"quick": 8000, "thorough": 300000})]
