"""C01 -- async execution returns exactly what sequential evaluation would."""
import copy

from ..common import Sub
from ..e1 import engine, gen, ref, reduce, oracles

RULE = ("programs drawn shape-first (chain/tree/comb/diamond/re-entry comb/staggered/free-form) and decorated; "
        "non-trivial = at least 2 tasks, at least 1 batch flush, and (a nested yield structure, or >= 2 batch kinds, or a shared/re-yielded future); "
        "distinct = distinct program JSON. Futures whose value is an exception instance occur as leaves (the value must be delivered, not raised). Library tools (deduplicate, alru_cache, async generators, amap/afilter/asorted/amin/amax, aretry, call_with_context) occur as leaves.")
ASSUMPTIONS = ["item values are a function of (kind, argument) only, so every flush order must give the same answer",
               "flush orders are steered through get_priority tables (a superset of what the default tie-break can produce for batches of different kinds)"]

CFG = dict(sync=True, shared_lazy=1, premade=True, tools=("dd", "alru", "agen", "amap", "asorted", "amin", "amax", "afilter", "retry", "cwc"),  ctx=("rec", "ov"), dag=True, orphans=True, reyield=True, itemvalue=True, excval=True, convs=("call", "value", "wrapper"),
           shapes=("chain", "tree", "comb", "diamond", "reentry", "stagger", "free", "free"))


def strategy(tier):
    return gen.programs(gen.Cfg(max_tasks=12 if tier == "quick" else 40, **CFG))


def expected(prog, env):
    r = ref.Ref(prog, env.item_action)
    out = r.run()
    return r, out


def compare(env, r, exp, viol, tag=""):
    # per-task transcripts first (they name the task and the value that differs); the root outcome
    # digests every transcript below it
    for tid, got in r.trans.items():
        rec = env.recs.get(tid)
        if rec is None or not rec.started:
            if env.outcome[0] != "escaped":
                viol.append(("C01.value" + tag, "task %r is evaluated by the sequential reference but never ran (root outcome %r)" % (tid, env.outcome)))
                return
            continue
        if rec.got != got and (rec.done or env.outcome[0] != "escaped"):
            viol.append(("C01.value" + tag, "task %r observed %r, sequential evaluation gives %r" % (tid, rec.got, got)))
            return
    if env.outcome != exp:
        viol.append(("C01.value" + tag, "root outcome %r, sequential evaluation gives %r" % (env.outcome, exp)))


def check(prog, ctx):
    viol = []
    env = oracles.first(prog)
    r, exp = expected(prog, env)
    compare(env, r, exp, viol)
    # metamorphic: every calling convention, and the reversed priority table (another flush order)
    alts = []
    for conv in ("call", "value", "wrapper"):
        if conv != prog.get("conv", "value"):
            p2 = dict(prog)
            p2["conv"] = conv
            alts.append(("conv=" + conv, p2))
    if prog.get("prio"):
        p2 = dict(prog)
        hi = max(max(v) for v in prog["prio"].values())
        p2["prio"] = {k: [hi - x for x in v] for k, v in prog["prio"].items()}
        alts.append(("reversed-priorities", p2))
    for name, p2 in alts:
        env2 = engine.run_program(p2)
        if env2.outcome != env.outcome:
            viol.append(("C01.convention", "%s gives %r, %s gives %r" % (prog.get("conv", "value"), env.outcome, name, env2.outcome)))
            break
        r2, exp2 = expected(p2, env2)
        compare(env2, r2, exp2, viol, tag="")
        if viol:
            break
    if not viol:
        env_b = oracles.again(prog, env)
        if env_b is not None:
            v2 = []
            r_b, exp_b = expected(prog, env_b)
            compare(env_b, r_b, exp_b, v2)
            viol += oracles.second(v2, env_b, "C01.value")
            ctx.label("run-twice-on-one-scheduler")
    st = gen.stats(prog)
    nflush = len(env.flushes)
    ctx.label("flushes>=2", nflush >= 2)
    ctx.label("kinds-flushed>=2", len(set(f[0] for f in env.flushes)) >= 2)
    ctx.label("shape=" + prog.get("shape", "?"))
    ctx.label("delivered-error", any(e and e[0] in ("caught", "syncexc") for rec in env.recs.values() for e in rec.got) or env.outcome[0] == "exc")
    ctx.label("sync-reentry", st["ops"].get("sync", 0) > 0)
    ctx.label("shared-or-reyielded", st["leaves"].get("ref", 0) > 0)
    ctx.label("same-object-yielded-again", st["ops"].get("reyield", 0) > 0)
    ctx.label("exception-instance-as-a-future's-value", st["leaves"].get("excval", 0) > 0)
    ctx.label("outcome=" + env.outcome[0])
    ctx.nontrivial(prog, st["tasks"] >= 2 and nflush >= 1 and (st["nested"] or st["kinds"] >= 2 or st["leaves"].get("ref", 0) > 0))
    return viol


def sizes(tier):
    from ..e1 import wide
    return wide.specs(["tuple-consts", "list-consts", "dict-consts", "fan-tasks", "fan-sync-first"], tier == "quick")


def check_sizes(spec, ctx):
    from ..e1 import wide
    prog = wide.expand(spec)
    env = engine.run_program(prog)
    r, exp = expected(prog, env)
    viol = []
    compare(env, r, exp, viol)
    ctx.label("wide:" + spec["shape"])
    ctx.nontrivial(spec)
    return [(s, "%r: %s" % (spec, m[:600])) for s, m in viol]

SUBS = [Sub("programs", check, strategy=strategy, reduce=reduce.candidates, examples={"quick": 6000, "thorough": 200000}),
        Sub("sizes", check_sizes, enumerate=sizes)]
