"""C16 -- computations on different threads never interfere."""
import copy
import re
import sys
import threading

from hypothesis import strategies as st

from ..common import Sub
from ..e1 import engine, gen

RULE = ("2-5 (quick) / 2-16 (thorough) generated tie-free programs (harness batch kinds with a per-computation 'current batch', DebugBatchItem, contexts, "
        "failures, synchronous re-entry) plus a deduplicated function called with the SAME arguments in every thread, with COLLECT_PERF_STATS on, run on as "
        "many threads; every thread subscribes a handler of its own to its scheduler's flush hooks (it must hear of that thread's flushes only). (turnstile) every body statement and flush body is a sync point and Hypothesis draws the sequence of thread turns -- a deterministic, "
        "shrinkable interleaving; (free-running) sys.setswitchinterval(1e-6), barrier start, repeated runs. non-trivial = >= 2 threads each performed >= 1 "
        "flush and the drawn schedule switches threads >= 3 times (turnstile) / >= 2 threads with >= 1 flush (free-running); distinct = distinct case JSON")
ASSUMPTIONS = ["operating-system preemption points inside asynq are only sampled (free-running mode); the turnstile mode covers interleavings at harness sync points",
               "the oracle (per-thread trace = solo trace) is schedule independent, so it cannot raise a false alarm on a correct tree"]

ADDR = re.compile(r"0x[0-9a-fA-F]+")


def strategy_turnstile(tier):
    n_max = 5 if tier == "quick" else 16
    cfg = gen.Cfg(max_tasks=6, sync=True, ctx=("rec",), dag=False, ditem=True, itemvalue=True, prio="tiefree", convs=("call", "value"), early_result=False, tools=("dd", "agen", "amap", "retry", "cwc", "alru"),
                  shapes=("comb", "reentry", "tree", "stagger", "free", "chain"))
    return st.integers(2, n_max).flatmap(lambda n: st.fixed_dictionaries({
        "progs": st.lists(gen.programs(cfg), min_size=n, max_size=n),
        "schedule": st.lists(st.integers(0, n), min_size=0, max_size=60 if tier == "quick" else 200),
        "asyncio_thread": st.booleans(),
        "mode": st.just("turnstile")}))


def strategy_free(tier):
    n_max = 5 if tier == "quick" else 16
    cfg = gen.Cfg(max_tasks=6, sync=True, ctx=("rec",), dag=False, ditem=True, itemvalue=True, prio="tiefree", convs=("call", "value"), early_result=False, tools=("dd", "agen", "amap", "retry", "cwc", "alru"),
                  shapes=("comb", "reentry", "tree", "stagger", "free", "chain"))
    return st.integers(2, n_max).flatmap(lambda n: st.fixed_dictionaries({
        "progs": st.lists(gen.programs(cfg), min_size=n, max_size=n), "repeat": st.just(3 if tier == "quick" else 10), "mode": st.just("free")}))


class Turnstile(object):
    """The harness owns the schedule: a thread passes a sync point only when the next entry of the drawn
    schedule names it (entries of finished threads are skipped; an exhausted schedule lets everybody run)."""

    def __init__(self, schedule):
        self.schedule = list(schedule)
        self.pos = 0
        self.cv = threading.Condition()
        self.done = set()
        self.stuck = False
        import time as _t
        self.last_progress = _t.time()

    def _current(self):
        while self.pos < len(self.schedule) and self.schedule[self.pos] in self.done:
            self.pos += 1
        return self.schedule[self.pos] if self.pos < len(self.schedule) else None

    def sync(self, tid):
        with self.cv:
            while True:
                cur = self._current()
                if cur is None or cur == tid:
                    break
                self.cv.wait(timeout=2)
                import time as _t
                if _t.time() - self.last_progress > 60:      # nobody has taken a turn for a minute: not a slow machine
                    self.stuck = True
                    return
            if cur == tid:
                self.pos += 1
                import time as _t
                self.last_progress = _t.time()
                self.cv.notify_all()

    def finish(self, tid):
        with self.cv:
            self.done.add(tid)
            import time as _t
            self.last_progress = _t.time()
            self.cv.notify_all()


def thread_body(tid, prog, sync, out):
    """everything one thread does; ``sync`` is None when run alone"""
    import asynq
    from asynq import asynq as A, scheduler
    from asynq.tools import deduplicate
    from asynq.batching import DebugBatchItem
    import asynq.batching as batching
    import asynq.profiler as profiler
    res = out[tid] = {}
    try:
        # no reset of any kind here: a fresh thread must find fresh per-thread state by itself (an explicit
        # profiler.reset() / scheduler.reset() would hide state that is shared until first reset)
        res["scheduler"] = scheduler.get_scheduler()
        # the thread's own subscriber on its own scheduler's flush hooks: it hears of this thread's flushes only, from this thread only
        hook = []
        my_thread = threading.current_thread()

        def on_flush(batch):
            hook.append([threading.current_thread() is my_thread, type(batch).__name__])
        res["scheduler"].on_before_batch_flush.subscribe(on_flush)
        res["scheduler"].on_after_batch_flush.subscribe(on_flush)
        env = engine.run_program(copy.deepcopy(prog), reset=False, capture=False, on_step=sync)
        tr = engine.trace(env)
        tr["steps"] = [e for e in env.log if e[0] in ("step", "start")]
        res["trace"] = tr
        res["monitors"] = [(c, m) for c, m in env.viol if c.startswith("C08.active") or c.startswith("C16.")]
        res["flushes"] = len(env.flushes)
        # the same deduplicated call in every thread: each thread must run its own body
        me = "T%d" % tid if sync is not None else "solo"
        runs = []
        shared = out["__shared__"]

        holder = tid % 2 == 0

        @A()
        def use():
            # even threads hold an in-flight deduplicated task across sync points and ask for it again;
            # odd threads call dirty() for the same key in between (their own scope: nothing of ours may vanish)
            if holder:
                a = shared.asynq(1, runs, me, sync)
                if sync is not None:
                    sync()
                    sync()
                b = shared.asynq(1, runs, me, sync)
                va, vb = yield a, b
                return [va, vb, a is b]
            if sync is not None:
                sync()
            shared.dirty(1)
            if sync is not None:
                sync()
            a = shared.asynq(1, runs, me, sync)
            va = yield a
            return [va, va, True]
        res["dedupe"] = [use(), len(runs)]
        # a task object created by the thread that started this one (as with pool.submit(task.value)) is computed here:
        # by this thread's scheduler, with this thread's active task
        ho = out.get("__handoff__", {}).get(tid)
        if ho is not None:
            box, task = ho
            box["sync"] = sync
            box["runner"] = threading.current_thread()
            v = task.value()
            res["handoff"] = [v, box.get("active"), box.get("same_thread")]
        # leave per-thread debug-batch state behind (a request that is never flushed): nothing of it may ever be
        # seen by another thread, not even by a later thread that happens to get this thread's recycled ident
        res["leftover"] = DebugBatchItem("dbg", 99)
        stats = profiler.flush()
        # counter and function / batch type (the argument reprs contain addresses and thread names)
        names = [str(s.get("name")).split("(")[0].strip() for s in stats]
        # (the handed-over task was numbered by the thread that created it)
        res["profile"] = sorted(nm.split(".", 1)[1] if nm.endswith(".handed_over") else nm for nm in names)
        tr["own-subscriber-on-the-flush-hooks"] = list(hook)
        res["active_after"] = scheduler.get_active_task() is None and len(scheduler.get_scheduler()._tasks) == 0
    except BaseException as e:
        res["crash"] = "%s: %s" % (type(e).__name__, str(e)[:200])
    finally:
        try:
            res["scheduler"].on_before_batch_flush.unsubscribe(on_flush)
            res["scheduler"].on_after_batch_flush.unsubscribe(on_flush)
        except BaseException:
            pass
        if sync is not None:
            out["__turnstile__"].finish(tid)


def asyncio_thread(tid, sync, out, n):
    """a thread that is inside fn.asyncio() on its own event loop while the other threads run scheduler code"""
    import asyncio
    from asynq import asynq as A, ConstFuture, is_asyncio_mode
    res = out[tid] = {}
    try:
        @A()
        def leaf(i):
            return i

        @A()
        def body(k):
            total = 0
            for i in range(k):
                sync()
                total += (yield [ConstFuture(i), leaf.asynq(i)])[1]
            sync()
            return total
        res["value"] = asyncio.run(body.asyncio(n))
        res["mode_after"] = is_asyncio_mode()
    except BaseException as e:
        res["crash"] = "%s: %s" % (type(e).__name__, str(e)[:200])
    finally:
        out["__turnstile__"].finish(tid)


def make_shared():
    from asynq import asynq as A
    from asynq.tools import deduplicate
    from asynq.batching import DebugBatchItem

    def keyget(args, kwargs):
        return args[0]          # the key is the first argument only: identical in every thread

    @deduplicate(keyget)
    @A()
    def shared(k, runs, me, sync):
        runs.append(me)
        if sync is not None:
            sync()
        v = yield DebugBatchItem("c16dd", k)
        if sync is not None:
            sync()
        return [me, v]
    return shared


def make_handoff(k):
    from asynq import asynq as A, scheduler
    from asynq.batching import DebugBatchItem
    box = {}

    @A()
    def handed_over(k):
        s = box.get("sync")
        box["active"] = [scheduler.get_active_task() is box["task"]]
        if s is not None:
            s()
        v = yield DebugBatchItem("c16ho", k)
        if s is not None:
            s()
        box["active"].append(scheduler.get_active_task() is box["task"])
        box["same_thread"] = threading.current_thread() is box["runner"]
        return ["handed-over", v]
    box["task"] = handed_over.asynq(k)
    return box, box["task"]


def run_solo(prog, shared, tid):
    out = {"__shared__": shared, "__handoff__": {tid: make_handoff(tid)}}
    t = threading.Thread(target=thread_body, args=(tid, prog, None, out))
    t.start()
    t.join(60)
    return out[tid]


def comparable(res, me):
    d = dict((k, res.get(k)) for k in ("trace", "profile", "active_after", "crash", "handoff"))
    dd = res.get("dedupe")
    if dd is not None:
        dd = [[[x[0] == me, x[1]] if isinstance(x, list) else x for x in dd[0]], dd[1]]
    d["dedupe"] = dd
    return d


def check(case, ctx):
    import asynq.debug as D
    from asynq.tools import DeduplicateDecorator
    engine.reset_process_state()
    progs = case["progs"]
    n = len(progs)
    viol = []
    D.options.COLLECT_PERF_STATS = True
    old_switch = sys.getswitchinterval()
    try:
        shared = make_shared()
        solo = [comparable(run_solo(p, shared, i), "solo") for i, p in enumerate(progs)]
        DeduplicateDecorator.tasks.clear()
        rounds = 1 if case["mode"] == "turnstile" else case["repeat"]
        flushing = 0
        for rnd in range(rounds):
            out = {"__shared__": shared, "__handoff__": {i: make_handoff(i) for i in range(n)}}
            threads = []
            if case["mode"] == "turnstile":
                ts = out["__turnstile__"] = Turnstile(case["schedule"])
                for i in range(n):
                    threads.append(threading.Thread(target=thread_body, args=(i, progs[i], (lambda i=i: ts.sync(i)), out)))
                if case.get("asyncio_thread"):
                    threads.append(threading.Thread(target=asyncio_thread, args=(n, (lambda: ts.sync(n)), out, 3)))
                else:
                    ts.done.add(n)
            else:
                sys.setswitchinterval(1e-6)
                barrier = threading.Barrier(n)
                ts = out["__turnstile__"] = Turnstile([])

                def free(i):
                    barrier.wait()
                    thread_body(i, progs[i], (lambda: None), out)
                for i in range(n):
                    threads.append(threading.Thread(target=free, args=(i,)))
            for t in threads:
                t.start()
            for t in threads:
                t.join(120)
            if any(t.is_alive() for t in threads) or ts.stuck:
                viol.append(("C16.hang", "threads did not finish (a thread waits for ever although every other thread finished or yielded its turn)"))
                break
            if case.get("asyncio_thread") and case["mode"] == "turnstile":
                a = out.get(n, {})
                if a.get("crash") or a.get("value") != 3 or a.get("mode_after") is not False:
                    viol.append(("C16.asyncio_thread", "the thread running fn.asyncio() on its own event loop: %r (expected value 3, flag off afterwards)" % (a,)))
            scheds = [out[i].get("scheduler") for i in range(n)]
            for i in range(n):
                for j in range(i):
                    if scheds[i] is not None and scheds[i] is scheds[j]:
                        viol.append(("C16.scheduler", "threads %d and %d share one scheduler object" % (j, i)))
            for i in range(n):
                for c, m in out[i].get("monitors", []):
                    viol.append(("C16.observe", "thread %d: %s" % (i, m)))
                    break
                got = comparable(out[i], "T%d" % i)
                if got != solo[i]:
                    diff = [k for k in solo[i] if solo[i][k] != got.get(k)]
                    sub = diff[0]
                    a, b = got.get(sub), solo[i][sub]
                    if sub == "trace" and isinstance(a, dict) and isinstance(b, dict):
                        sub2 = [k for k in b if a.get(k) != b[k]]
                        a, b = {k: a.get(k) for k in sub2[:1]}, {k: b[k] for k in sub2[:1]}
                    viol.append(("C16.same_as_alone:" + sub, "thread %d of %d (%s): its %s differ from the same program run alone: %r vs alone %r" % (i, n, case["mode"], "/".join(diff), a, b)))
                    break
            flushing = max(flushing, sum(1 for i in range(n) if out[i].get("flushes", 0) >= 1))
            if viol:
                break
        switches = 0
        if case["mode"] == "turnstile":
            s = case["schedule"]
            switches = sum(1 for a, b in zip(s, s[1:]) if a != b)
        ctx.label("threads=%d" % n)
        ctx.label("mode=" + case["mode"])
        ctx.label("with-asyncio-thread", bool(case.get("asyncio_thread")))
        ctx.label(">=2-threads-flushing", flushing >= 2)
        ctx.label("schedule-switches>=3", switches >= 3)
        ctx.nontrivial(case, flushing >= 2 and (case["mode"] == "free" or switches >= 3))
    finally:
        sys.setswitchinterval(old_switch)
        D.options.COLLECT_PERF_STATS = False
        DeduplicateDecorator.tasks.clear()
    return viol


def reduce_case(case):
    from ..e1 import reduce
    progs = case["progs"]
    if len(progs) > 2:
        for i in range(len(progs)):
            c = dict(case, progs=progs[:i] + progs[i + 1:])
            if "schedule" in c:
                c["schedule"] = [x if x < i else x - 1 for x in case["schedule"] if x != i]
            yield c
    if case.get("asyncio_thread"):
        yield dict(case, asyncio_thread=False)
    if case.get("schedule"):
        s = case["schedule"]
        for i in range(0, len(s), max(1, len(s) // 8)):
            yield dict(case, schedule=s[:i] + s[i + max(1, len(s) // 8):])
    for i, p in enumerate(progs):
        for cand in itertools_islice(reduce.candidates(p), 40):
            yield dict(case, progs=progs[:i] + [cand] + progs[i + 1:])


def itertools_islice(it, n):
    import itertools
    return itertools.islice(it, n)


SUBS = [Sub("turnstile", check, strategy=strategy_turnstile, reduce=reduce_case, examples={"quick": 700, "thorough": 10000}),
        Sub("free-running", check, strategy=strategy_free, reduce=reduce_case, examples={"quick": 150, "thorough": 3000})]
