"""C10 -- a future is completed at most once and reports one consistent outcome."""
from hypothesis import strategies as st

from ..common import Sub
from ..e1 import engine, gen, oracles, reduce as e1reduce
from .. import sink

RULE = ("operation sequences (value, error, call, is_computed, set_value, set_error, reset_unsafe, subscribe with well-behaved or raising callbacks; <= 30 ops) "
        "on one future of each of 12 kinds (Future with returning/raising provider, ConstFuture, ErrorFuture, AsyncTask returning/raising/blocking on a batch, "
        "batch with succeeding/failing flush, item of such batches, DebugBatchItem), compared step by step with an explicit three-state reference model; "
        "non-trivial = the sequence completes the future and then performs at least one further set_* or read, with at least one subscriber; distinct = distinct case JSON. "
        "scheduler-driven: generated programs in which the same uncomputed Future(provider) object sits in >= 2 places of one computation; non-trivial = >= 2 places and the provider ran Subscribers may also unsubscribe themselves or complete other futures while being notified.")
ASSUMPTIONS = ["error() on a pending lazy Future whose provider raises propagates that exception once (and stores it): the property constrains reports 'from then on'",
               "ConstFuture/ErrorFuture use a sinking hook: subscribers added after completion are never called, which the property allows",
               "after reset_unsafe() only Future(provider) is asked to recompute naturally; other kinds are completed again through set_value/set_error only"]

KINDS = ["future_ok", "future_raise", "const", "errfut", "task_ret", "task_raise", "task_block", "batch_ok", "batch_fail", "item_ok", "item_fail", "debugitem",
         "task_suspended", "task_suspended_cleanup_raises"]
SUSPENDED = ("task_suspended", "task_suspended_cleanup_raises")


class E(Exception):
    """an exception instance may be falsy (an empty 'list of problems' error defining __len__ / __bool__)"""

    def __bool__(self):
        a = self.args[0] if self.args else None
        return not (isinstance(a, tuple) and len(a) == 2 and a[1] == 3)


class CBErr(Exception):
    pass


class CleanupError(Exception):
    pass


def strategy(tier):
    op = st.one_of(
        st.sampled_from([["value"], ["error"], ["call"], ["is_computed"], ["reset_unsafe"]]),
        st.sampled_from([["value"], ["error"], ["call"], ["is_computed"]]),
        st.tuples(st.just("set_value"), st.integers(0, 3)).map(list),
        st.tuples(st.just("set_error"), st.integers(0, 3)).map(list),
        st.tuples(st.just("subscribe"), st.sampled_from([False, True, "oneshot", "oneshot", "nested", "nested"])).map(list),
    )
    return st.fixed_dictionaries({"kind": st.sampled_from(KINDS), "ops": st.lists(op, min_size=1, max_size=30 if tier == "quick" else 60)})


def check(case, ctx):
    import asynq
    from asynq import asynq as A, Future, ConstFuture, ErrorFuture, FutureIsAlreadyComputed
    from asynq.batching import BatchBase, BatchItemBase, DebugBatchItem
    engine.reset_process_state()
    kind = case["kind"]
    viol = []
    R = {"runs": 0}
    perr = E("provider")

    class B(BatchBase):
        def __init__(self, fail):
            BatchBase.__init__(self)
            self.fail = fail

        def _try_switch_active_batch(self):
            pass

        def _flush(self):
            R["runs"] += 1
            if self.fail:
                raise self.fail
            for i in self.items:
                i.set_value(["iv", i.index])

    class I(BatchItemBase):
        pass

    def prov_ok():
        R["runs"] += 1
        return "pv"

    def prov_raise():
        R["runs"] += 1
        raise perr

    @A()
    def t_ret():
        R["runs"] += 1
        return "tv"

    @A()
    def t_raise():
        R["runs"] += 1
        raise perr

    @A()
    def t_block():
        R["runs"] += 1
        v = yield DebugBatchItem("c10", "dv")
        return ["tb", v]

    @A()
    def t_susp():
        R["runs"] += 1
        ok = False
        try:
            v = yield DebugBatchItem("c10s", "dv")
            ok = True
        finally:
            # clean-up that fails when the generator is closed while suspended
            if not ok and kind == "task_suspended_cleanup_raises":
                raise CleanupError()
        return ["ts", v]

    state = ["pending"]
    natural = None
    if kind in SUSPENDED:
        f = t_susp.asynq(); natural = ["value", ["ts", "dv"]]
    elif kind == "future_ok":
        f = Future(prov_ok); natural = ["value", "pv"]
    elif kind == "future_raise":
        f = Future(prov_raise); natural = ["error", perr]
    elif kind == "const":
        f = ConstFuture("cv"); state = ["value", "cv"]
    elif kind == "errfut":
        f = ErrorFuture(perr); state = ["error", perr]
    elif kind == "task_ret":
        f = t_ret.asynq(); natural = ["value", "tv"]
    elif kind == "task_raise":
        f = t_raise.asynq(); natural = ["error", perr]
    elif kind == "task_block":
        f = t_block.asynq(); natural = ["value", ["tb", "dv"]]
    elif kind == "batch_ok":
        f = B(None); I(f); natural = ["value", None]
    elif kind == "batch_fail":
        f = B(perr); I(f); natural = ["error", perr]
    elif kind == "item_ok":
        b = B(None); f = I(b); natural = ["value", ["iv", 0]]
    elif kind == "item_fail":
        b = B(perr); f = I(b); natural = ["error", perr]
    else:
        f = DebugBatchItem("c10d", "dd"); natural = ["value", "dd"]
    sinking = kind in ("const", "errfut")
    lazy = kind in ("future_ok", "future_raise")
    M = {"runs": 0, "ran": False, "subs": 0, "no_natural": natural is None, "completions": 0, "after": 0, "finished_body": False}
    cb_log = []

    cb_of = {}
    gone = set()       # one-shot subscribers that have already removed themselves

    def complete(outcome):
        state[:] = outcome
        M["completions"] += 1
        return [] if sinking else [i for i in range(M["subs"]) if i not in gone_before[0]]

    gone_before = [set()]

    def run_natural():
        if lazy or not M["ran"]:
            M["runs"] += 1
            M["ran"] = True
        return complete(natural)

    def do(fn):
        n0 = len(cb_log)
        with sink.capture_print():
            try:
                r = ["ret", fn()]
            except BaseException as e:
                r = ["exc", e]
        return r, cb_log[n0:]

    skipped = 0
    cur = {"step": 0}

    def perform():
        nonlocal skipped
        for step, op in enumerate(case["ops"]):
            cur["step"] = step
            name = op[0]
            expect_cb = []
            gone_before[0] = set(gone)
            if name in ("value", "call", "error"):
                was_pending = state[0] == "pending"
                if was_pending and M["no_natural"]:
                    skipped += 1
                    continue
                r, cbs = do({"value": f.value, "call": f, "error": f.error}[name])
                if was_pending:
                    expect_cb = run_natural()
                    M["finished_body"] = True
                if state[0] != "pending":
                    M["after"] += (not was_pending)
                if name == "error":
                    if was_pending and kind == "future_raise":
                        if not (r[0] == "exc" and r[1] is perr):
                            bad("outcome", "error() on the pending raising Future gave %r" % (r,))
                    elif state[0] == "value":
                        if r != ["ret", None]:
                            bad("outcome", "error() returned %r although the outcome is value %r" % (r, state[1]))
                    elif not (r[0] == "ret" and r[1] is state[1]):
                        bad("outcome", "error() gave %r, outcome is error %r" % (r, state[1]))
                else:
                    if state[0] == "value":
                        if not (r[0] == "ret" and r[1] == state[1]):
                            bad("outcome", "%s() gave %r, outcome is value %r" % (name, r, state[1]))
                    elif not (r[0] == "exc" and r[1] is state[1]):
                        bad("outcome", "%s() gave %r, outcome is error %r" % (name, r, state[1]))
            elif name == "is_computed":
                r, cbs = do(f.is_computed)
                if r != ["ret", state[0] != "pending"]:
                    bad("outcome", "is_computed() gave %r in state %s" % (r, state[0]))
            elif name in ("set_value", "set_error"):
                was_pending = state[0] == "pending"
                if name == "set_value":
                    # falsy and None values are legal outcomes
                    val = {2: 0, 3: None}.get(op[1], ["sv", op[1]])
                    new = ["value", val]
                    r, cbs = do(lambda: f.set_value(val))
                else:
                    e = E(("se", op[1]))
                    new = ["error", e]
                    r, cbs = do(lambda: f.set_error(e))
                if was_pending:
                    if kind == "task_suspended_cleanup_raises" and not M["finished_body"]:
                        # closing the suspended generator runs its failing clean-up: the outcome is set and announced,
                        # then the clean-up error reaches the caller of set_*
                        if not (r[0] == "exc" and isinstance(r[1], CleanupError)):
                            bad("once", "%s on the suspended task gave %r (its clean-up raises CleanupError when the generator is closed)" % (name, r))
                    elif r != ["ret", None]:
                        bad("once", "%s on a pending future gave %r" % (name, r))
                    M["finished_body"] = True
                    expect_cb = complete(new)
                    if not lazy:
                        M["ran"] = True     # completing it by hand: the underlying computation must not run later
                else:
                    M["after"] += 1
                    if not (r[0] == "exc" and isinstance(r[1], FutureIsAlreadyComputed)):
                        bad("once", "second %s gave %r instead of raising FutureIsAlreadyComputed" % (name, r))
                    # ... and changes nothing
                    if (state[0] == "value" and not (f._error is None and f._value == state[1])) or (state[0] == "error" and f._error is not state[1]):
                        bad("once", "rejected %s changed the stored outcome" % name)
            elif name == "reset_unsafe":
                if kind in SUSPENDED:
                    skipped += 1
                    continue
                r, cbs = do(f.reset_unsafe)
                state[:] = ["pending"]
                if not lazy:
                    M["no_natural"] = True
            elif name == "subscribe":
                idx = M["subs"]
                M["subs"] += 1
                raising = op[1]

                def cb(fut, idx=idx, raising=raising):
                    cb_log.append([idx, fut.is_computed(), fut._value, fut._error])
                    if raising == "nested":
                        # a subscriber that completes other futures while it is being notified
                        from asynq import ConstFuture as _CF, Future as _F
                        _CF(1)
                        g = _F(lambda: 2)
                        g.on_computed.subscribe(lambda _g: None)
                        g.on_computed.subscribe(lambda _g: None)
                        g.value()
                    elif raising == "oneshot":
                        # a one-shot subscriber removes itself while being notified
                        fut.on_computed.unsubscribe(cb_of[idx])
                        gone.add(idx)
                    elif raising:
                        raise CBErr(idx)
                cb_of[idx] = cb
                r, cbs = do(lambda: f.on_computed.subscribe(cb))
            got = sorted(c[0] for c in cbs)
            if got != sorted(expect_cb):
                bad("notify", "subscribers notified %r, expected each of %r exactly once" % (got, expect_cb))
            for c in cbs:
                if not c[1]:
                    bad("notify", "a subscriber ran before the outcome was visible")
                elif state[0] == "value" and not (c[3] is None and c[2] == state[1]):
                    bad("notify", "a subscriber saw %r/%r, outcome is value %r" % (c[2], c[3], state[1]))
                elif state[0] == "error" and c[3] is not state[1]:
                    bad("notify", "a subscriber saw error %r, outcome is %r" % (c[3], state[1]))
            if kind != "debugitem" and R["runs"] != M["runs"]:
                bad("compute_once", "the underlying computation ran %d times, expected %d" % (R["runs"], M["runs"]))
            if viol:
                break

    def bad(clause, msg):
        viol.append(("C10." + clause, "%s future, after ops %r: %s" % (kind, case["ops"][:cur["step"] + 1], msg)))

    if kind in SUSPENDED:
        # the operations are performed by a sibling task while the future -- a task that has started and is
        # suspended at a yield on an unflushed batch item -- is mid-body
        M["runs"] = 1
        M["ran"] = True

        @A()
        def driver():
            if f.is_computed() or R["runs"] != 1:
                bad("outcome", "harness: the task is not suspended when the driver runs")
            perform()
            return None
            yield

        @A()
        def outer():
            yield [f, driver.asynq()]
        with sink.capture_print():
            try:
                outer()
            except (E, CleanupError):
                pass
    else:
        perform()
    ctx.label("kind=" + kind)
    ctx.label("ops-after-completion", M["after"] > 0)
    ctx.label("reset_unsafe", any(o[0] == "reset_unsafe" for o in case["ops"]))
    ctx.label("raising-subscriber", any(o[0] == "subscribe" and o[1] is True for o in case["ops"]))
    ctx.label("subscriber-completing-other-futures", any(o[0] == "subscribe" and o[1] == "nested" for o in case["ops"]))
    ctx.label("one-shot-subscriber", any(o[0] == "subscribe" and o[1] == "oneshot" for o in case["ops"]))
    ctx.nontrivial(case, M["completions"] >= 1 and M["after"] >= 1 and M["subs"] >= 1)
    return viol


def reduce_case(case):
    ops = case["ops"]
    for i in range(len(ops)):
        yield {"kind": case["kind"], "ops": ops[:i] + ops[i + 1:]}


def sched_strategy(tier):
    return gen.programs(gen.Cfg(max_tasks=8 if tier == "quick" else 24, sync=True, dag=True, reyield=True, shared_lazy=5, ok_w=8, catch_p=2,
                                convs=("value", "call"), shapes=("tree", "comb", "diamond", "free", "free")))


def check_sched(prog, ctx):
    """the same lazy Future object awaited in several places of one computation (twice in one yield, by a
    parent and its child, by a task and a synchronous re-entry): the provider runs once, every consumer
    sees the one outcome, subscribers are notified once"""
    env = engine.run_program(prog)
    viol = oracles.clauses(env, "C10.")
    r, exp = oracles.reference(prog, env)
    viol += oracles.compare_with_reference(env, r, exp, "C10.outcome")
    for k, f in sorted(env.shared_lazy.items()):
        if f.is_computed() and env.lazy_notes.get(k, 0) != 1:
            viol.append(("C10.notify", "shared Future %r is computed and its subscriber was notified %d times" % (k, env.lazy_notes.get(k, 0))))
        if f.is_computed() and env.lazy_runs.get(k, 0) != 1:
            viol.append(("C10.once", "shared Future %r is computed and its provider ran %d times" % (k, env.lazy_runs.get(k, 0))))
    st = gen.stats(prog)
    n = st["leaves"].get("slazy", 0)
    ctx.label("shared-future-places>=2", n >= 2)
    ctx.label("shared-future-failing", any(f.is_computed() and f._error is not None for f in env.shared_lazy.values()))
    ctx.label("outcome=" + env.outcome[0])
    ctx.nontrivial(prog, n >= 2 and bool(env.lazy_runs))
    return viol


SUBS = [Sub("op-sequences", check, strategy=strategy, reduce=reduce_case, examples={"quick": 8000, "thorough": 300000}),
        Sub("scheduler-driven", check_sched, strategy=sched_strategy, reduce=e1reduce.candidates, examples={"quick": 3000, "thorough": 100000})]
