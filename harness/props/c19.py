"""C19 -- asynq.mock.patch replaces every calling convention and always restores."""
import asyncio
import itertools
import sys
import types

from hypothesis import strategies as st

from ..common import Sub
from ..e1 import engine

RULE = ("(matrix) target kind {module function, instance method, classmethod, staticmethod, plain attribute} x replacement kind {default mock, plain function, "
        "lambda, bound method, callable object, new_callable mock class, new_callable callable-object class, non-callable} x activation {with, decorator, "
        "start/stop, stopall} x exit path {normal, exception}, enumerated exhaustively; (histories) generated nested/sequential patch histories on one target "
        "with generated arguments. Every cell is non-trivial; distinct = distinct case JSON Bound-method replacements are the same method of a different helper object each time; overlapping patches may install one replacement object; results may be future objects.")
ASSUMPTIONS = ["new_callable is exercised as the standard library documents it: a mock class or a class of callable objects (DESIGN.md note N3)",
               "which arguments a replacement receives (with or without the bound instance) follows Python's descriptor protocol for the replacement kind; the oracle requires "
               "that all four calling conventions deliver the *same* arguments, ending with the given ones, and agree on the result"]

TARGETS = ["function", "method", "classmethod", "staticmethod", "attribute"]
REPLACEMENTS = ["default", "function", "lambda", "bound_method", "callable_object", "new_callable_mock", "new_callable_object", "non_callable"]
ACTIVATIONS = ["with", "decorator", "class_decorator", "start_stop", "stopall"]
EXITS = ["normal", "exception"]


class Boom(Exception):
    pass


def make_target_module():
    from asynq import asynq as A
    name = "c19_target_mod"
    mod = types.ModuleType(name)

    @A()
    def fn(x, k=0):
        return ["orig-fn", x, k]

    class K(object):
        ATTR = ["orig-attr"]

        def __init__(self, nm):
            self.nm = nm

        @A()
        def m(self, x, k=0):
            return ["orig-m", self.nm, x, k]

        @A()
        @classmethod
        def cm(cls, x, k=0):
            return ["orig-cm", x, k]

        @A()
        @staticmethod
        def sm(x, k=0):
            return ["orig-sm", x, k]

    mod.fn = fn
    mod.K = K
    sys.modules[name] = mod
    return mod


def locate(mod, target):
    """(owner object, attribute name, patch-by-string target, accessor of the live callable)"""
    inst = mod.K("i1")
    if target == "function":
        return mod, "fn", "c19_target_mod.fn", lambda: mod.fn, inst
    if target == "method":
        return mod.K, "m", "c19_target_mod.K.m", lambda: inst.m, inst
    if target == "classmethod":
        return mod.K, "cm", "c19_target_mod.K.cm", lambda: mod.K.cm, inst
    if target == "staticmethod":
        return mod.K, "sm", "c19_target_mod.K.sm", lambda: mod.K.sm, inst
    return mod.K, "ATTR", "c19_target_mod.K.ATTR", lambda: mod.K.ATTR, inst


class Recorder(object):
    def __init__(self):
        self.calls = []


class _Helper(object):
    def __init__(self, record):
        self.record = record

    def meth(self, *args, **kwargs):
        return self.record(*args, **kwargs)


def make_replacement(kind, tag, rec, fut=False):
    """returns (patch kwargs, expected-result function of the received (args, kwargs)); with ``fut`` the
    replacement's result is itself a future object (a handle the caller is meant to receive as it is)"""
    from unittest import mock
    from asynq import ConstFuture

    def result(args, kwargs):
        return [tag, [repr(a) if not isinstance(a, (int, str)) else a for a in args], sorted(kwargs.items())]

    def record(*args, **kwargs):
        rec.calls.append((args, kwargs))
        return ConstFuture(result(args, kwargs)) if fut else result(args, kwargs)

    if kind == "default":
        return {"_default": True, "_side_effect": record}, result
    if kind == "function":
        def repl(*args, **kwargs):
            return record(*args, **kwargs)
        return {"new": repl}, result
    if kind == "lambda":
        return {"new": lambda *args, **kwargs: record(*args, **kwargs)}, result
    if kind == "bound_method":
        # the same method of a different helper object every time (one class for the whole process)
        return {"new": _Helper(record).meth}, result
    if kind == "callable_object":
        class Obj(object):
            def __call__(self, *args, **kwargs):
                return record(*args, **kwargs)
        return {"new": Obj()}, result
    if kind == "new_callable_mock":
        def factory(**kw):
            return mock.MagicMock(side_effect=record, **kw)
        return {"new_callable": factory, "_record": record}, result
    if kind == "new_callable_object":
        class Obj2(object):
            def __call__(self, *args, **kwargs):
                return record(*args, **kwargs)
        return {"new_callable": Obj2}, result
    return {"new": ["non-callable", tag]}, None


def make_patch(how, mod, target, kw):
    from asynq.mock_ import patch
    owner, attr, path, live, inst = locate(mod, target)
    kw = dict(kw)
    default = kw.pop("_default", False)
    side = kw.pop("_side_effect", None)
    kw.pop("_record", None)
    p = patch(path, **kw) if how == "string" else patch.object(owner, attr, **kw)
    return p, default, side


def exercise(live, args, kwargs, result_fn, rec, prefix=(), fut=False):
    """all four calling conventions against the live (patched) callable"""
    from asynq import asynq as A, FutureBase
    problems = []
    outs = {}

    def run(name, thunk):
        n0 = len(rec.calls)
        try:
            r = thunk()
        except BaseException as e:
            problems.append("%s raised %s: %s" % (name, type(e).__name__, str(e)[:120]))
            return
        new = rec.calls[n0:]
        if len(new) != 1:
            problems.append("%s reached the replacement %d times" % (name, len(new)))
            return
        outs[name] = (new[0], r)

    run("sync call", lambda: live()(*args, **kwargs))
    run(".asynq().value()", lambda: live().asynq(*args, **kwargs).value())

    @A()
    def from_task():
        v = yield live().asynq(*args, **kwargs)
        return v
    run("yield from a task", from_task)
    run(".asyncio()", lambda: asyncio.run(_await(live().asyncio(*args, **kwargs))))
    if problems:
        return problems
    first = outs["sync call"]
    for name, (call, r) in outs.items():
        if repr(call) != repr(first[0]):
            problems.append("%s delivered %r to the replacement, the sync call delivered %r" % (name, call, first[0]))
        if tuple(call[0]) != tuple(prefix) + tuple(args) or call[1] != kwargs:
            problems.append("%s delivered %r, the given arguments were %r %r%s" % (name, call, args, kwargs, " (after the bound instance)" if prefix else ""))
        exp = result_fn(*call)
        if fut:
            exp = ["<future object>", exp]
        if isinstance(r, FutureBase):
            r = ["<future object>", r.value()]
        if r != exp:
            problems.append("%s returned %r, the replacement returned %r" % (name, r, exp))
    return problems


def prefix_for(target, repl, inst):
    """Python's descriptor protocol: only a plain function (or lambda) installed on a class and reached
    through an instance is bound to that instance"""
    return (inst,) if target == "method" and repl in ("function", "lambda") else ()


async def _await(coro):
    return await coro


def check_cell(case, ctx):
    from asynq.mock_ import patch
    engine.reset_process_state()
    target, repl, act, exit_ = case["target"], case["replacement"], case["activation"], case["exit"]
    how = case.get("how", "object")
    args = tuple(case.get("args", [3]))
    kwargs = dict(case.get("kwargs", {}))
    mod = make_target_module()
    owner, attr, path, live, inst = locate(mod, target)
    original = owner.__dict__[attr]
    rec = Recorder()
    fut = bool(case.get("future_result"))
    kw, result_fn = make_replacement(repl, "R", rec, fut)
    viol = []
    desc = "%s patched (%s, by %s) with %s%s, left by %s" % (target, act, how, repl, " whose result is a future object" if fut else "", exit_)

    def bad(clause, msg):
        viol.append(("C19." + clause + ":" + repl, desc + ": " + msg))

    def inside(m=None):
        if m is not None and kw.get("_default"):
            m.side_effect = kw["_side_effect"]
        if result_fn is None:
            if owner.__dict__[attr] is not kw["new"]:
                bad("install", "the non-callable replacement was not installed as is")
        else:
            for pr in exercise(live, args, kwargs, result_fn, rec, prefix_for(target, repl, inst), fut):
                bad("reach", pr)
                break
        if exit_ == "exception":
            raise Boom()

    try:
        p, default, side = make_patch(how, mod, target, kw)
    except BaseException as e:
        bad("construct", "patch() raised %s: %s" % (type(e).__name__, str(e)[:160]))
        p = None
    if p is not None:
        try:
            if act == "with":
                try:
                    with p as m:
                        inside(m)
                except Boom:
                    pass
            elif act == "decorator":
                if default:
                    @p
                    def body(m):
                        inside(m)
                else:
                    @p
                    def body(*extra):
                        inside(extra[0] if extra else None)
                try:
                    body()
                except Boom:
                    pass
            elif act == "class_decorator":
                class Holder(object):
                    def test_it(self, *extra):
                        inside(extra[0] if extra else None)
                Holder = p(Holder)
                try:
                    Holder().test_it()
                except Boom:
                    pass
            else:
                m = p.start()
                try:
                    inside(m)
                except Boom:
                    pass
                finally:
                    if act == "start_stop":
                        p.stop()
                    else:
                        patch.stopall()
        except BaseException as e:
            bad("activate", "%s: %s" % (type(e).__name__, str(e)[:160]))
            try:
                patch.stopall()
            except Exception:
                pass
    if owner.__dict__[attr] is not original:
        bad("restore", "after the patch ended the attribute is %r, not the original object" % (owner.__dict__[attr],))
    elif target != "attribute" and p is not None and not viol:
        # and the original behaves as before
        r = live()(*args, **kwargs)
        if r[0][:4] != "orig":
            bad("restore", "the restored callable returns %r" % (r,))
    sys.modules.pop("c19_target_mod", None)
    ctx.label("target=" + target)
    ctx.label("replacement=" + repl)
    ctx.label("activation=" + act)
    ctx.label("exit=" + exit_)
    ctx.nontrivial(case)
    return viol


# ---- the dotted path is resolved when the patch is activated, not when the patcher is built ------------------

def rebind_cells(tier):
    for t, r, a in itertools.product(["function", "method", "classmethod", "staticmethod"], ["default", "function", "callable_object"], ["with", "decorator", "start_stop"]):
        yield {"target": t, "replacement": r, "activation": a}


def check_rebind(case, ctx):
    from asynq.mock_ import patch
    engine.reset_process_state()
    target, repl, act = case["target"], case["replacement"], case["activation"]
    mod = make_target_module()
    name = "c19_target_mod"
    path = {"function": name + ".fn", "method": name + ".K.m", "classmethod": name + ".K.cm", "staticmethod": name + ".K.sm"}[target]
    rec = Recorder()
    kw, result_fn = make_replacement(repl, "R", rec)
    kw = dict(kw)
    default = kw.pop("_default", False)
    side = kw.pop("_side_effect", None)
    kw.pop("_record", None)
    viol = []
    desc = "%s patched by dotted path (%s) with %s; the owner is re-bound between building and activating the patcher" % (target, act, repl)

    def bad(clause, msg):
        viol.append(("C19." + clause + ":" + repl, desc + ": " + msg))
    try:
        p = patch(path, **kw)          # built now (decorators are built at import time) ...
        # ... then the object the path leads through is replaced (module reloaded / class swapped)
        if target == "function":
            mod2 = types.ModuleType(name)
            mod2.__dict__.update(mod.__dict__)
            sys.modules[name] = mod2
            owner, attr = mod2, "fn"
        else:
            mod.K = type("K", (mod.K,), {"m": mod.K.__dict__["m"], "cm": mod.K.__dict__["cm"], "sm": mod.K.__dict__["sm"]})
            owner, attr = mod.K, {"method": "m", "classmethod": "cm", "staticmethod": "sm"}[target]
        original = owner.__dict__[attr]
        inst = None if target == "function" else sys.modules[name].K("i1")

        def live():
            m = sys.modules[name]
            return {"function": lambda: m.fn, "method": lambda: inst.m, "classmethod": lambda: m.K.cm, "staticmethod": lambda: m.K.sm}[target]()

        def inside(m=None):
            if m is not None and default:
                m.side_effect = side
            for pr in exercise(live, (3,), {}, result_fn, rec, prefix_for(target, repl, inst)):
                bad("reach", pr)
                break
        if act == "with":
            with p as m:
                inside(m)
        elif act == "decorator":
            @p
            def body(*extra):
                inside(extra[0] if extra else None)
            body()
        else:
            m = p.start()
            try:
                inside(m)
            finally:
                p.stop()
        if owner.__dict__[attr] is not original:
            bad("restore", "the attribute on the current owner is %r, not the original object" % (owner.__dict__[attr],))
    except BaseException as e:
        bad("activate", "%s: %s" % (type(e).__name__, str(e)[:160]))
        try:
            patch.stopall()
        except Exception:
            pass
    finally:
        sys.modules.pop(name, None)
    ctx.label("rebind-target=" + target)
    ctx.nontrivial(case)
    return viol


def enum_cells(tier):
    for t, r, a, e in itertools.product(TARGETS, REPLACEMENTS, ACTIVATIONS, EXITS):
        for how in ("object", "string"):
            yield {"target": t, "replacement": r, "activation": a, "exit": e, "how": how, "args": [3], "kwargs": {}}
            if r != "non_callable" and e == EXITS[0]:
                yield {"target": t, "replacement": r, "activation": a, "exit": e, "how": how, "args": [3], "kwargs": {}, "future_result": True}


# ---- nested / sequential histories -------------------------------------------------------------------

def strat_hist(tier):
    op = st.one_of(st.tuples(st.just("push"), st.sampled_from([r for r in REPLACEMENTS]), st.sampled_from(["object", "string"])).map(list),
                   st.tuples(st.just("push_same"), st.sampled_from(["object", "string"])).map(list),
                   st.just(["pop"]), st.just(["pop"]), st.just(["stopall"]), st.just(["restart"]), st.tuples(st.just("call"), st.lists(st.integers(0, 4), min_size=1, max_size=2), st.booleans()).map(list),
                   st.tuples(st.just("call"), st.lists(st.integers(0, 4), min_size=1, max_size=2), st.booleans()).map(list))
    return st.fixed_dictionaries({"target": st.sampled_from(TARGETS), "ops": st.lists(op, min_size=2, max_size=10 if tier == "quick" else 20),
                                  "future_result": st.sampled_from([False, False, True])})


def check_hist(case, ctx):
    from asynq.mock_ import patch
    engine.reset_process_state()
    target = case["target"]
    mod = make_target_module()
    owner, attr, path, live, inst = locate(mod, target)
    original = owner.__dict__[attr]
    stack = []      # (patcher, installed object, rec, result_fn, kind)
    viol = []
    depth_max = 0
    stopped = None
    reactivated = False
    first_rec, first_fn, first_kw, keep = {}, {}, {}, []
    fut = bool(case.get("future_result"))
    shared_obj = False

    def bad(clause, msg):
        viol.append(("C19." + clause, "%s, after ops %r: %s" % (target, case["ops"][:step + 1], msg)))

    try:
        for step, op in enumerate(case["ops"]):
            if op[0] in ("push", "push_same"):
                if op[0] == "push_same":
                    # a second, overlapping patch of the same attribute installs the very object the enclosing patch installed
                    if not stack or "new" not in stack[-1][5] or stack[-1][3] is None:
                        continue
                    kw, rec, result_fn, kind_ = stack[-1][5], stack[-1][2], stack[-1][3], stack[-1][4]
                    op = ["push", kind_, op[1]]
                    shared_obj = True
                else:
                    rec = Recorder()
                    kw, result_fn = make_replacement(op[1], "L%d" % len(stack), rec, fut)
                try:
                    p, default, side = make_patch(op[2], mod, target, kw)
                    m = p.start()
                except BaseException as e:
                    bad("construct:" + op[1], "patch().start() raised %s: %s" % (type(e).__name__, str(e)[:160]))
                    break
                if default:
                    m.side_effect = side
                first_rec[id(p)] = rec
                first_fn[id(p)] = result_fn
                first_kw[id(p)] = kw
                keep.append(p)
                stack.append((p, owner.__dict__[attr], rec, result_fn, op[1], kw))
                depth_max = max(depth_max, len(stack))
            elif op[0] == "restart":
                # the same patcher object is activated again after it was stopped
                if stopped is None:
                    continue
                p, kind, side, default = stopped
                stopped = None
                rec = Recorder()
                kw2, result_fn = make_replacement(kind, "again%d" % len(stack), rec, fut)
                if kind in ("default", "new_callable_mock", "new_callable_object"):
                    # the patcher creates a fresh replacement on every activation
                    m = p.start()
                    if default:
                        m.side_effect = kw2["_side_effect"]
                    elif kind == "new_callable_mock":
                        m.side_effect = kw2["_record"]
                    else:
                        # a fresh instance of the callable-object class records into the first recorder: re-point it
                        rec = first_rec[id(p)]
                        result_fn = first_fn[id(p)]
                    stack.append((p, owner.__dict__[attr], rec, result_fn, kind, {}))
                    depth_max = max(depth_max, len(stack))
                    reactivated = True
                else:
                    p.start()
                    stack.append((p, owner.__dict__[attr], first_rec[id(p)], first_fn[id(p)], kind, first_kw.get(id(p), {})))
                    depth_max = max(depth_max, len(stack))
                    reactivated = True
            elif op[0] == "pop":
                if not stack:
                    continue
                ent = stack.pop()
                p = ent[0]
                p.stop()
                stopped = (p, ent[4], None, ent[4] == "default")
                want = stack[-1][1] if stack else original
                if owner.__dict__[attr] is not want:
                    bad("restore", "after leaving nesting level %d the attribute is %r, expected the %s" % (len(stack) + 1, owner.__dict__[attr], "enclosing replacement" if stack else "original object"))
            elif op[0] == "stopall":
                if not stack:
                    continue
                n_levels = len(stack)
                patch.stopall()
                del stack[:]
                stopped = None
                if owner.__dict__[attr] is not original:
                    bad("restore", "after patch.stopall() with %d overlapping started patches the attribute is %r, not the original object" % (n_levels, owner.__dict__[attr]))
            else:
                args = tuple(op[1])
                kwargs = {"k": 9} if op[2] else {}
                if stack:
                    p, obj, rec, result_fn, kind = stack[-1][:5]
                    if result_fn is None:
                        if owner.__dict__[attr] is not obj:
                            bad("install", "non-callable replacement not visible")
                    else:
                        for pr in exercise(live, args, kwargs, result_fn, rec, prefix_for(target, kind, inst), fut):
                            bad("reach:" + kind, pr)
                            break
                elif target != "attribute":
                    r = live()(*args[:1], **kwargs)
                    if r[0][:4] != "orig":
                        bad("restore", "unpatched call returns %r" % (r,))
            if viol:
                break
    finally:
        while stack:
            try:
                stack.pop()[0].stop()
            except Exception:
                pass
        if not viol and owner.__dict__[attr] is not original:
            step = len(case["ops"]) - 1
            bad("restore", "after every patch ended the attribute is not the original object")
        sys.modules.pop("c19_target_mod", None)
    ctx.label("depth>=2", depth_max >= 2)
    ctx.label("same-patcher-activated-again", reactivated)
    ctx.label("overlapping-patches-share-one-replacement-object", shared_obj)
    ctx.label("future-valued-results", fut)
    ctx.label("stopall-with-overlap", any(o[0] == "stopall" for o in case["ops"]) and depth_max >= 2)
    ctx.label("target=" + target)
    ctx.nontrivial(case, depth_max >= 1)
    return viol


def reduce_hist(case):
    ops = case["ops"]
    for i in range(len(ops)):
        yield dict(case, ops=ops[:i] + ops[i + 1:])


SUBS = [Sub("matrix", check_cell, enumerate=enum_cells),
        Sub("late-binding", check_rebind, enumerate=rebind_cells),
        Sub("histories", check_hist, strategy=strat_hist, reduce=reduce_hist, examples={"quick": 12000, "thorough": 300000})]
