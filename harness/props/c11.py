"""C11 -- batch lifecycle: pending -> flushed or cancelled, once; no item left pending."""
from hypothesis import strategies as st

from ..common import Sub
from ..e1 import engine
from .. import sink

RULE = ("operation sequences (add-item, flush, cancel with/without error, item.value(), batch.value(), batch.error(), state queries; <= 25 ops) on a harness "
        "BatchBase subclass with a generated flush behaviour (per-item: set value / set error / leave unset; then return, raise Exception or raise a "
        "BaseException; optionally create a new item of the same kind while flushing) and on the built-in DebugBatch, compared with a reference lifecycle model; "
        "non-trivial = the batch finishes with >= 2 items and at least one operation follows; distinct = distinct case JSON Later batches of the same kind are created and finished while the finished batch keeps being checked.")
ASSUMPTIONS = ["harness batch kinds follow the README's pattern (a 'current batch' per kind, switched in _try_switch_active_batch)"]


class E(Exception):
    pass


class BE(BaseException):
    pass


class FalsyE(E):
    """an exception instance may be falsy (an empty 'list of problems' error defining __len__ / __bool__)"""

    def __bool__(self):
        return False


class FalsyBE(BE):
    def __bool__(self):
        return False


def strategy(tier):
    op = st.one_of(
        st.sampled_from([["add"], ["add"], ["flush"], ["cancel", False], ["cancel", True], ["batch_value"], ["batch_error"], ["query"], ["later_generation"], ["later_generation"]]),
        st.tuples(st.just("item_value"), st.integers(0, 5)).map(list),
    )
    plan = st.fixed_dictionaries({"mode": st.lists(st.sampled_from("ve-"), min_size=1, max_size=3), "fail": st.sampled_from([None, None, "exc", "base"]),
                                  "spawn": st.booleans(), "self_cancel": st.sampled_from([False, False, False, True])})
    ops = st.tuples(st.integers(0, 5), st.lists(op, min_size=1, max_size=25 if tier == "quick" else 50)).map(lambda t: [["add"]] * t[0] + t[1])
    return st.fixed_dictionaries({"target": st.sampled_from(["harness", "harness", "harness", "debug"]), "plan": plan, "ops": ops,
                                  "falsy_errors": st.sampled_from([False, False, True])})


def check(case, ctx):
    from asynq.batching import BatchBase, BatchItemBase, BatchingError, BatchCancelledError, DebugBatch, DebugBatchItem
    import asynq.batching as batching
    engine.reset_process_state()
    viol = []
    plan = case["plan"]
    debug = case["target"] == "debug"
    if debug:
        plan = {"mode": ["v"], "fail": None, "spawn": False, "self_cancel": False}
    mode, fail, spawn, self_cancel = plan["mode"], plan["fail"], plan["spawn"], plan["self_cancel"]
    EX, BX = (FalsyE, FalsyBE) if case.get("falsy_errors") else (E, BE)
    flush_exc = EX("flush")
    flush_base = BX("flush")

    class Kind(object):
        cur = None

    class HB(BatchBase):
        def __init__(self):
            BatchBase.__init__(self)
            self.body_runs = 0
            self.created_in_flush = []
            self.active_during_body = None
            self.announce = []
            self.my_items = []
            self.on_computed.subscribe(lambda b: self.announce.append([i.is_computed() for i in self.my_items]))

        def _try_switch_active_batch(self):
            if Kind.cur is self:
                Kind.cur = HB()

        def _flush(self):
            self.body_runs += 1
            self.active_during_body = Kind.cur is self
            if spawn:
                self.created_in_flush.append(HI())
            for n, i in enumerate(list(self.items)):
                act = mode[n % len(mode)]
                if act == "v":
                    i.set_value(["v", n])
                elif act == "e":
                    i.set_error(EX(("item", n)))
            if self_cancel:
                self.cancel(EX("self-cancel"))
            if fail == "exc":
                raise flush_exc
            if fail == "base":
                raise flush_base

    class HI(BatchItemBase):
        def __init__(self):
            b = Kind.cur
            BatchItemBase.__init__(self, b)
            b.my_items.append(self)

    if debug:
        first = DebugBatchItem("c11", 0)
        b = first.batch
        items = [first]
        announce = []
        b.on_computed.subscribe(lambda bb: announce.append([i.is_computed() for i in items]))
    else:
        Kind.cur = b = HB()
        items = []
    M = {"state": "pending", "runs": 0, "item_out": None, "berr": None, "after": 0}

    def finish(how, err=None):
        out = []
        for n in range(len(items)):
            if how == "flush":
                act = mode[n % len(mode)]
                if debug:
                    out.append(["v", n])
                elif act == "v":
                    out.append(["v", ["v", n]])
                elif act == "e":
                    out.append(["e", EX, ("item", n)])
                elif self_cancel:
                    out.append(["e", EX, "self-cancel"])
                elif fail:
                    out.append(["e", EX if fail == "exc" else BX, "flush"])
                else:
                    out.append(["e", AssertionError, None])
            else:
                out.append(["e", type(err), None])
        M["item_out"] = out
        if how == "flush":
            M["runs"] += 1
            if self_cancel:
                M["state"] = "cancelled"; M["berr"] = EX
            elif fail:
                M["state"] = "cancelled"; M["berr"] = EX if fail == "exc" else BX
            else:
                M["state"] = "flushed"; M["berr"] = None
        else:
            M["state"] = "cancelled"; M["berr"] = type(err)

    def run(f):
        with sink.capture_print():
            try:
                return ["ret", f()]
            except BaseException as e:
                return ["exc", e]

    def bad(clause, msg):
        viol.append(("C11." + clause, "%s batch, plan %r, after ops %r: %s" % (case["target"], plan, case["ops"][:step + 1], msg)))

    for step, op in enumerate(case["ops"]):
        name = op[0]
        if M["state"] != "pending":
            M["after"] += 1
        if name == "add":
            if M["state"] == "pending":
                if debug:
                    it = DebugBatchItem("c11", len(items))
                    if it.batch is not b:
                        bad("active", "a new DebugBatchItem did not join the pending active batch")
                    items.append(it)
                else:
                    items.append(HI())
            else:
                r = run(lambda: BatchItemBase(b))
                if not (r[0] == "exc" and isinstance(r[1], AssertionError)):
                    bad("closed", "adding an item to a finished batch gave %r" % (r,))
                if debug:
                    it = DebugBatchItem("c11", 99)
                    if it.batch is b or it.batch.is_flushed():
                        bad("active", "a request created after the batch finished joined a finished batch")
                elif Kind.cur is b or Kind.cur.is_flushed():
                    bad("active", "the finished batch is still the active batch")
        elif name == "later_generation":
            # once this batch has finished: a later batch of the same kind is created, used and finished too
            # (nothing of that may touch the finished batch, which the following operations keep checking)
            if M["state"] != "pending":
                it = DebugBatchItem("c11", 50) if debug else HI()
                if it.batch is b:
                    bad("active", "a request created after the batch finished joined it")
                else:
                    run(it.batch.flush)
        elif name == "flush":
            r = run(b.flush)
            if M["state"] == "pending":
                if r != ["ret", None]:
                    bad("flush", "flush() on a pending batch gave %r (must never raise for a failing body)" % (r,))
                finish("flush")
            elif not (r[0] == "exc" and isinstance(r[1], BatchingError)):
                bad("flush", "second flush() gave %r instead of raising BatchingError" % (r,))
        elif name == "cancel":
            err = EX("cancel") if op[1] else None
            r = run(lambda: b.cancel(err))
            if r != ["ret", None]:
                bad("cancel", "cancel() gave %r (must never raise)" % (r,))
            if M["state"] == "pending":
                finish("cancel", err if op[1] else BatchCancelledError())
        elif name == "item_value":
            if not items:
                continue
            n = op[1] % len(items)
            r = run(items[n].value)
            if M["state"] == "pending":
                finish("flush")
            o = M["item_out"][n]
            if o[0] == "v":
                if r != ["ret", o[1]]:
                    bad("items", "item %d value() gave %r, expected %r" % (n, r, o[1]))
            elif not (r[0] == "exc" and type(r[1]) is o[1] and (o[2] is None or r[1].args[0] == o[2])):
                bad("items", "item %d value() gave %r, expected %s%s" % (n, r, o[1].__name__, "" if o[2] is None else "(%r)" % (o[2],)))
        elif name == "batch_error":
            r = run(b.error)
            if M["state"] == "pending":
                finish("flush")
            ok = r[0] == "ret" and (type(r[1]) is M["berr"] if M["berr"] else r[1] is None)
            if not ok:
                bad("outcome", "batch.error() gave %r, expected %s" % (r, M["berr"].__name__ if M["berr"] else None))
        elif name == "batch_value":
            r = run(b.value)
            if M["state"] == "pending":
                finish("flush")
            if M["berr"]:
                if not (r[0] == "exc" and type(r[1]) is M["berr"]):
                    bad("outcome", "batch.value() gave %r, expected %s raised" % (r, M["berr"].__name__))
            elif r != ["ret", None]:
                bad("outcome", "batch.value() gave %r" % (r,))
        # ---- invariants after every step --------------------------------------------------
        runs = M["runs"] if debug else b.body_runs
        if runs != M["runs"]:
            bad("flush", "flush body ran %d times, expected %d" % (runs, M["runs"]))
        if b.is_flushed() != (M["state"] != "pending") or b.is_cancelled() != (M["state"] == "cancelled") or b.is_empty() != (len(b.items) == 0):
            bad("state", "is_flushed/is_cancelled = %r/%r in model state %s" % (b.is_flushed(), b.is_cancelled(), M["state"]))
        if M["state"] != "pending":
            if not all(i.is_computed() for i in items):
                bad("items", "an item of a finished batch is still pending")
            ann = announce if debug else b.announce
            if len(ann) != 1 or not all(ann[0]):
                bad("announce", "batch completion announced %d time(s); items computed at that moment: %r" % (len(ann), ann[:1]))
            if not debug:
                if Kind.cur is b:
                    bad("active", "the finished batch is still the active batch")
                if b.body_runs and b.active_during_body:
                    bad("active", "the batch was still the active batch while its flush body ran")
                for it in ([] if M.get("spawn_checked") else b.created_in_flush):
                    # (looked at once, when the batch has just finished: the successor batch may be flushed later)
                    if it.batch is b or it.batch.is_flushed():
                        bad("active", "an item created during the flush did not join a fresh pending batch")
                M["spawn_checked"] = True
            # every item outcome matches the reference (read without triggering anything)
            for n, it in enumerate(items):
                o = M["item_out"][n]
                if it.is_computed():
                    if o[0] == "v" and not (it._error is None and it._value == o[1]):
                        bad("items", "item %d holds %r/%r, expected value %r" % (n, it._value, it._error, o[1]))
                    if o[0] == "e" and not (type(it._error) is o[1] and (o[2] is None or it._error.args[0] == o[2])):
                        bad("items", "item %d holds error %r, expected %s" % (n, it._error, o[1].__name__))
        with sink.capture_print():
            try:
                str(b); repr(b); [repr(i) for i in items]
            except Exception as e:
                bad("state", "str/repr raised %r" % (e,))
        if viol:
            break
    ctx.label("target=" + case["target"])
    ctx.label("falsy-error-instances", bool(case.get("falsy_errors")))
    ctx.label("finished=" + M["state"])
    ctx.label("flush-raises", bool(fail) and M["runs"] > 0)
    ctx.label("spawn-in-flush", spawn and M["runs"] > 0 and not debug)
    ctx.label("items>=2", len(items) >= 2)
    ctx.label("later-generations>=2", sum(1 for o in case["ops"] if o[0] == "later_generation") >= 2 and M["state"] != "pending")
    ctx.nontrivial(case, M["state"] != "pending" and len(items) >= 2 and M["after"] >= 1)
    return viol


def reduce_case(case):
    ops = case["ops"]
    for i in range(len(ops)):
        yield dict(case, ops=ops[:i] + ops[i + 1:])
    p = case["plan"]
    for k, v in (("spawn", False), ("self_cancel", False), ("fail", None)):
        if p[k] != v:
            yield dict(case, plan=dict(p, **{k: v}))
    if len(p["mode"]) > 1:
        yield dict(case, plan=dict(p, mode=p["mode"][:-1]))


SUBS = [Sub("op-sequences", check, strategy=strategy, reduce=reduce_case, examples={"quick": 8000, "thorough": 300000})]
