"""C02 -- failures propagate like sequential exceptions, after all siblings finish."""
from ..common import Sub
from ..e1 import engine, gen, oracles, reduce

RULE = ("fault-heavy programs (task raises at any step, item errors / unset items, flush bodies raising after a prefix, ErrorFuture, failing lazy Future, "
        "non-future objects, catch on/off at every level); non-trivial = a failure was delivered into a task whose yield had >= 2 futures, "
        "or was caught and the task continued, or crossed >= 2 task levels; distinct = distinct program JSON. Library tools occur as leaves (incl. a function failing inside call_with_context).")
ASSUMPTIONS = ["which items a raising flush leaves unset depends on batch composition: the reference takes the per-item action from the harness-written flush body's own log",
               "programs with NonAsyncContext / failing contexts are excluded (a context failure legitimately fails a task while its children are still pending)"]


def strategy(tier):
    return gen.programs(gen.Cfg(max_tasks=12 if tier == "quick" else 40, sync=True, ctx=("rec",), dag=True, shared_lazy=1, premade=True, tools=("dd", "alru", "agen", "amap", "asorted", "amin", "amax", "afilter", "retry", "cwc"), ok_w=5, fault_leaf_w=2, catch_p=2,
                                flush_faults=("raise", "raise_base"), cancels=True, reyield=True, convs=("call", "value", "wrapper"),
                                shapes=("chain", "tree", "comb", "diamond", "reentry", "free", "free", "free")))


def check(prog, ctx):
    env = oracles.first(prog)
    viol = oracles.clauses(env, "C02.")
    r, exp = oracles.reference(prog, env)
    viol += oracles.compare_with_reference(env, r, exp, "C02.propagation")
    for cid, seen in sorted(env.cwc_seen.items()):
        c = env.ctxs.get(cid)
        if c is not None and c.k % 4 >= 2 and not (isinstance(seen, engine.HExc) and list(seen.key) == ["cwc", c.k]):
            viol.append(("C02.propagation", "call_with_context: the function failed inside the context, whose __exit__ was told %r instead of the failure" % (seen,)))
    # uncaught -> the task's own failure and the exception raised by value(): identity
    root = env.recs[prog["root"]["id"]]
    if env.outcome[0] == "exc" and isinstance(getattr(env, "raised", None), engine.HExc) and prog.get("conv") != "wrapper":
        if root.handle is not None and root.handle.is_computed() and root.handle._error is not env.raised:
            viol.append(("C02.identity", "value() raised a different object than the root task's error()"))
    if not viol:
        env_b = oracles.again(prog, env)
        if env_b is not None:
            r_b, exp_b = oracles.reference(prog, env_b)
            viol += oracles.second(oracles.clauses(env_b, "C02.") + oracles.compare_with_reference(env_b, r_b, exp_b, "C02.propagation"), env_b, "C02.propagation")
            ctx.label("run-twice-on-one-scheduler")
    levels = max([len(v) for v in env.deliveries.values()] or [0])
    ctx.label("delivered", bool(env.deliveries))
    ctx.label("delivered-multi-future-yield", env.delivered_multi > 0)
    ctx.label("caught-and-continued", env.delivered_caught > 0)
    ctx.label("crossed>=2-levels", levels >= 2)
    ctx.label("flush-fault-hit", any(isinstance(a, list) for a in env.item_action.values()))
    ctx.label("outcome=" + env.outcome[0])
    ctx.label("shape=" + prog.get("shape", "?"))
    ctx.nontrivial(prog, env.delivered_multi > 0 or env.delivered_caught > 0 or levels >= 2)
    return viol


def sizes(tier):
    from ..e1 import wide
    return wide.specs(["fan-one-fails"], tier == "quick")


def check_sizes(spec, ctx):
    from ..e1 import wide
    prog = wide.expand(spec)
    env = engine.run_program(prog)
    viol = oracles.clauses(env, "C02.")
    r, exp = oracles.reference(prog, env)
    viol += oracles.compare_with_reference(env, r, exp, "C02.propagation")
    ctx.label("wide:" + spec["shape"])
    ctx.nontrivial(spec)
    return [(s, "%r: %s" % (spec, m[:600])) for s, m in viol]

SUBS = [Sub("faults", check, strategy=strategy, reduce=reduce.candidates, examples={"quick": 8000, "thorough": 300000}),
        Sub("sizes", check_sizes, enumerate=sizes)]
