"""C14 -- collection helpers equal their built-in counterparts, in one batching round."""
import itertools

from hypothesis import strategies as st

from ..common import Sub
from ..e1 import engine

RULE = ("(helpers) input sequences of ints / None / unorderable objects with equal keys, length 0..8, given as list / tuple / one-shot iterator, key or predicate "
        "immediate or blocking on a harness batch item, reverse on/off, amax/amin in varargs and single-iterable form with and without key, bad inputs (no "
        "arguments, empty, non-iterable, unexpected keyword, unorderable keys); compared with map/filter/filterfalse/sorted/max/min/a two-list partition by "
        "object identity. non-trivial = length >= 2 with a duplicate key, or a one-shot iterator, or a bad input. (aretry) every (k, max_tries, position of an "
        "unlisted exception, exception spec) cell, enumerated. distinct = distinct case JSON asift is called twice (the caller changes the first result in between); a further campaign issues several helper calls in one yield, optionally nested.")
ASSUMPTIONS = ["'the same exception type' is compared by class name with the built-in's behaviour on the same input"]

HELPERS = ["amap", "afilter", "afilter_none", "afilterfalse", "asorted", "asorted_nokey", "amax", "amin", "amax_nokey", "amin_nokey", "amaxv", "aminv", "amaxv_nokey", "asift",
           "amax_noargs", "amin_noargs", "amax_badkw", "amin_badkw", "amax_nonit", "asorted_nonit"]


class U(object):
    """unorderable value with a key"""

    def __init__(self, k, tag):
        self.k = k
        self.tag = tag

    def __repr__(self):
        return "U(%r,%r)" % (self.k, self.tag)


class Q(object):
    """values that compare equal (same group) yet are distinguishable and map to different keys"""

    def __init__(self, grp, k):
        self.grp = grp
        self.k = k

    def __eq__(self, other):
        return isinstance(other, Q) and other.grp == self.grp

    def __ne__(self, other):
        return not self.__eq__(other)

    def __hash__(self):
        return hash(("Q", self.grp))

    def __repr__(self):
        return "Q(%r,%r)" % (self.grp, self.k)


def keyfn(x):
    return x.k if isinstance(x, (U, Q)) else x


def pred_sync(x):
    k = keyfn(x)
    return bool(k is not None and k % 2 == 0)


def strategy(tier):
    elem = st.one_of(st.integers(-3, 3), st.integers(-3, 3), st.tuples(st.just("U"), st.integers(-2, 2), st.integers(0, 99)).map(list),
                    st.tuples(st.just("Q"), st.integers(0, 1), st.integers(-2, 2)).map(list), st.none())
    return st.fixed_dictionaries({"xs": st.lists(elem, max_size=8 if tier == "quick" else 14), "kind": st.sampled_from(["list", "tuple", "iter"]),
                                  "blocking": st.sampled_from([False, True, True, "mixed"]), "reverse": st.booleans(), "helper": st.sampled_from(HELPERS)})


def outcome(thunk):
    try:
        return ["ok", thunk()]
    except Exception as e:
        return ["exc", type(e).__name__]


def check(case, ctx):
    from asynq import asynq as A
    from asynq.tools import amap, afilter, afilterfalse, asorted, amax, amin, asift
    engine.reset_process_state()
    env = engine.Env({"root": {"id": 0, "body": []}, "prio": {}})
    blocking, reverse, helper, kind = case["blocking"], case["reverse"], case["helper"], case["kind"]
    xs = [(U if e[0] == "U" else Q)(e[1], e[2]) if isinstance(e, list) else e for e in case["xs"]]
    calls = []

    def rounds(x):
        """how many batching rounds the per-element call needs: uniform, or depending on the element
        (a read-through cache: hits return at once, misses wait for one or two rounds)"""
        if blocking == "mixed":
            k = keyfn(x)
            return abs(k) % 3 if isinstance(k, int) else 0
        return 1 if blocking else 0

    @A()
    def key(x):
        calls.append(x)
        for _ in range(rounds(x)):
            yield engine.HItem(env, "a", 0, "ok", len(calls))
        return keyfn(x)

    @A()
    def pred(x):
        calls.append(x)
        for _ in range(rounds(x)):
            yield engine.HItem(env, "a", 0, "ok", len(calls))
        return pred_sync(x)

    def it():
        return {"list": list, "tuple": tuple, "iter": iter}[kind](xs)
    expect_flush = max([rounds(x) for x in xs] or [0])
    if helper == "amap":
        got, exp = outcome(lambda: amap(key, it())), outcome(lambda: list(map(keyfn, xs)))
    elif helper == "afilter":
        got, exp = outcome(lambda: afilter(pred, it())), outcome(lambda: list(filter(pred_sync, xs)))
    elif helper == "afilter_none":
        ys = [x for x in xs if not isinstance(x, (U, Q))]
        got, exp = outcome(lambda: afilter(None, {"list": list, "tuple": tuple, "iter": iter}[kind](ys))), outcome(lambda: list(filter(None, ys)))
        expect_flush = 0
    elif helper == "afilterfalse":
        got, exp = outcome(lambda: afilterfalse(pred, it())), outcome(lambda: list(itertools.filterfalse(pred_sync, xs)))
    elif helper == "asorted":
        got, exp = outcome(lambda: asorted(it(), key=key, reverse=reverse)), outcome(lambda: sorted(xs, key=keyfn, reverse=reverse))
    elif helper == "asorted_nokey":
        got, exp = outcome(lambda: asorted(it(), reverse=reverse)), outcome(lambda: sorted(xs, reverse=reverse))
        expect_flush = 0
    elif helper == "amax":
        got, exp = outcome(lambda: amax(it(), key=key)), outcome(lambda: max(xs, key=keyfn))
    elif helper == "amin":
        got, exp = outcome(lambda: amin(it(), key=key)), outcome(lambda: min(xs, key=keyfn))
    elif helper == "amax_nokey":
        got, exp = outcome(lambda: amax(it())), outcome(lambda: max(xs))
        expect_flush = 0
    elif helper == "amin_nokey":
        got, exp = outcome(lambda: amin(it())), outcome(lambda: min(xs))
        expect_flush = 0
    elif helper == "amaxv":
        got, exp = outcome(lambda: amax(*xs, key=key)), outcome(lambda: max(*xs, key=keyfn))
        expect_flush = None
    elif helper == "aminv":
        got, exp = outcome(lambda: amin(*xs, key=key)), outcome(lambda: min(*xs, key=keyfn))
        expect_flush = None
    elif helper == "amaxv_nokey":
        got, exp = outcome(lambda: amax(*xs)), outcome(lambda: max(*xs))
        expect_flush = 0
    elif helper == "asift":
        first = outcome(lambda: asift(pred, it()))
        if first[0] == "ok" and isinstance(first[1], tuple) and all(isinstance(p, list) for p in first[1]):
            for part in first[1]:
                part.append("appended by the caller")      # results belong to the caller: a later call must not see this
        calls[:] = []
        got = outcome(lambda: asift(pred, it())) if kind != "iter" else outcome(lambda: asift(pred, iter(xs)))
        exp = outcome(lambda: ([x for x in xs if pred_sync(x)], [x for x in xs if not pred_sync(x)]))
        expect_flush = 2 * expect_flush
    elif helper == "amax_noargs":
        got, exp = outcome(lambda: amax(key=key)), outcome(lambda: max(key=keyfn))
        expect_flush = 0
    elif helper == "amin_noargs":
        got, exp = outcome(lambda: amin()), outcome(lambda: min())
        expect_flush = 0
    elif helper == "amax_badkw":
        got, exp = outcome(lambda: amax(it(), key=key, bogus=1)), outcome(lambda: max(xs, key=keyfn, bogus=1))
        expect_flush = 0
    elif helper == "amin_badkw":
        got, exp = outcome(lambda: amin(it(), bogus=1)), outcome(lambda: min(xs, bogus=1))
        expect_flush = 0
    elif helper == "amax_nonit":
        got, exp = outcome(lambda: amax(5, key=key)), outcome(lambda: max(5, key=keyfn))
        expect_flush = 0
    else:
        got, exp = outcome(lambda: asorted(5, key=key)), outcome(lambda: sorted(5, key=keyfn))
        expect_flush = 0

    def ids(z):
        if isinstance(z, (list, tuple)):
            return [ids(e) for e in z]
        return ("U", id(z)) if isinstance(z, (U, Q)) else z

    def norm(o):
        return o if o[0] != "ok" else ["ok", ids(o[1])]
    viol = []
    desc = "%s(%s of %r, %s key%s)" % (helper, kind, xs, {False: "immediate", True: "blocking", "mixed": "element-dependent blocking (0-2 rounds)"}[blocking], ", reverse" if reverse else "")
    if norm(got) != norm(exp) or (got[0] == "ok" and type(got[1]) is not type(exp[1]) and helper != "asift"):
        viol.append(("C14.builtin:" + helper, "%s returned %r, the built-in counterpart gives %r" % (desc, got, exp)))
    elif got[0] == "ok" and expect_flush is not None and len(env.flushes) != expect_flush:
        viol.append(("C14.one_round:" + helper, "%s needed %d flushes, expected %d (all per-element calls share one flush)" % (desc, len(env.flushes), expect_flush)))
    elif got[0] == "ok" and expect_flush is None and blocking and len(xs) >= 2 and len(env.flushes) != max(rounds(x) for x in xs):
        viol.append(("C14.one_round:" + helper, "%s needed %d flushes, expected %d" % (desc, len(env.flushes), max(rounds(x) for x in xs))))
    keys = [keyfn(x) for x in xs]
    dup = len(keys) >= 2 and len(set(map(repr, keys))) < len(keys)
    ctx.label("helper=" + helper)
    ctx.label("one-shot-iterator", kind == "iter")
    ctx.label("duplicate-keys", dup)
    ctx.label("equal-but-distinct-elements", len([x for x in xs if isinstance(x, Q)]) >= 2)
    ctx.label("exception-agreed", got[0] == "exc" and not viol)
    ctx.label("blocking", blocking is True)
    ctx.label("element-dependent-blocking", blocking == "mixed")
    ctx.nontrivial(case, dup or (kind == "iter" and len(xs) >= 1) or got[0] == "exc")
    return viol


def reduce_case(case):
    xs = case["xs"]
    for i in range(len(xs)):
        yield dict(case, xs=xs[:i] + xs[i + 1:])
    for i, x in enumerate(xs):
        if x != 0:
            yield dict(case, xs=xs[:i] + [0] + xs[i + 1:])
    if case["blocking"] == "mixed":
        yield dict(case, blocking=True)
    if case["blocking"]:
        yield dict(case, blocking=False)
    if case["reverse"]:
        yield dict(case, reverse=False)


# ---- several helper calls alive at the same time ---------------------------------------------------

def strategy_together(tier):
    elem = st.integers(-3, 3)
    call = st.fixed_dictionaries({"helper": st.sampled_from(["amap", "asorted", "amax", "amin", "afilter"]), "xs": st.lists(elem, min_size=1, max_size=5)})
    return st.fixed_dictionaries({"calls": st.lists(call, min_size=2, max_size=3), "blocking": st.booleans(), "nested": st.booleans()})


def check_together(case, ctx):
    """two or three helper calls issued in one yield (their per-element calls interleave at the flushes), optionally with a
    helper call inside the function handed to amap: each call equals its built-in counterpart, as if it ran alone"""
    from asynq import asynq as A
    from asynq.tools import amap, afilter, asorted, amax, amin
    engine.reset_process_state()
    env = engine.Env({"root": {"id": 0, "body": []}, "prio": {}})
    n = [0]

    @A()
    def key(x):
        n[0] += 1
        if case["blocking"]:
            yield engine.HItem(env, "a", 0, "ok", n[0])
        if case["nested"]:
            inner = yield amap.asynq(ident, [x, x + 1])
            if inner != [x, x + 1]:
                return ["inner amap returned", inner]
        return x

    @A()
    def ident(x):
        n[0] += 1
        if case["blocking"]:
            yield engine.HItem(env, "a", 0, "ok", n[0])
        return x

    @A()
    def pred(x):
        v = yield key.asynq(x)
        return v % 2 == 0

    def fut(c):
        h, xs = c["helper"], list(c["xs"])
        if h == "amap":
            return amap.asynq(key, xs), list(xs)
        if h == "afilter":
            return afilter.asynq(pred, xs), [x for x in xs if x % 2 == 0]
        if h == "asorted":
            return asorted.asynq(xs, key=key), sorted(xs)
        return (amax if h == "amax" else amin).asynq(xs, key=key), (max if h == "amax" else min)(xs)

    @A()
    def both():
        pairs = [fut(c) for c in case["calls"]]
        got = yield [p[0] for p in pairs]
        return got, [p[1] for p in pairs]
    viol = []
    try:
        got, exp = both()
    except Exception as e:
        got, exp = ["raised", type(e).__name__, str(e)[:100]], None
    if got != exp:
        viol.append(("C14.builtin:together", "helper calls %r issued in one yield (%s per-element functions%s) returned %r, their built-in counterparts give %r"
                     % ([(c["helper"], c["xs"]) for c in case["calls"]], "blocking" if case["blocking"] else "immediate", ", each calling amap itself" if case["nested"] else "", got, exp)))
    ctx.label("calls=%d" % len(case["calls"]))
    ctx.label("nested-helper-call", case["nested"])
    ctx.label("blocking", case["blocking"])
    ctx.nontrivial(case, case["blocking"] or case["nested"])
    return viol


# ---- aretry grid ----------------------------------------------------------------------------------

def retry_cells(tier):
    out = []
    for k in range(0, 7):
        for mt in range(0, 7):
            for other_at in [None, 0, 1, 2, 4]:
                for spec in ["single", "tuple"]:
                    for blocking in [False, True]:
                        out.append({"k": k, "max_tries": mt, "other_at": other_at, "spec": spec, "blocking": blocking})
                    # two invocations of the one decorated function in flight together (their attempts interleave at the flushes)
                    out.append({"k": k, "max_tries": mt, "other_at": other_at, "spec": spec, "blocking": True, "concurrent": True})
    return out


class L1(Exception):
    pass


class L2(Exception):
    pass


class Other(Exception):
    pass


def check_retry(case, ctx):
    from asynq import asynq as A
    from asynq.tools import aretry
    engine.reset_process_state()
    env = engine.Env({"root": {"id": 0, "body": []}, "prio": {}})
    k, mt, other_at, spec, blocking = case["k"], case["max_tries"], case["other_at"], case["spec"], case["blocking"]
    seen_args = []
    viol = []
    try:
        deco = aretry(L1 if spec == "single" else (L1, L2), max_tries=mt, sleep=0)
    except AssertionError:
        if mt >= 1:
            viol.append(("C14.aretry", "aretry(max_tries=%d) refused a valid max_tries" % mt))
        ctx.label("invalid-max-tries")
        ctx.nontrivial(case)
        return viol
    if mt < 1:
        return [("C14.aretry", "aretry(max_tries=%d) was accepted" % mt)]

    concurrent = bool(case.get("concurrent"))
    runs = {1: [], 2: []}

    @deco
    @A()
    def body(a, b=2):
        runs[a].append(1)
        seen_args.append((a, b))
        n = len(runs[a]) - 1
        if blocking:
            yield engine.HItem(env, "a", 0, "ok", n)
        if other_at is not None and n == other_at:
            raise Other(n)
        if n < k:
            raise (L2 if spec == "tuple" and n % 2 else L1)(n)
        return ["done", n]

    @A()
    def one(a):
        try:
            v = yield body.asynq(a, b=5)
            return ["ok", v]
        except Exception as e:
            return ["exc", type(e).__name__]

    @A()
    def both():
        r = yield [one.asynq(1), one.asynq(2)]
        return r
    if concurrent:
        gots = both()
    else:
        gots = [outcome(lambda: body(1, b=5))]
    m_runs, res = 0, None
    for i in range(mt):
        m_runs += 1
        if other_at is not None and i == other_at:
            res = ["exc", "Other"]
            break
        if i < k:
            if i + 1 == mt:
                res = ["exc", "L2" if spec == "tuple" and i % 2 else "L1"]
            continue
        res = ["ok", ["done", i]]
        break
    for inv, got in enumerate(gots, 1):
        if (got, len(runs[inv])) != (res, m_runs):
            viol.append(("C14.aretry", "aretry(%s, max_tries=%d)%s: first %d attempts raise a listed exception%s -> %r after %d runs; expected %r after %d runs" % (spec, mt, " (invocation %d of 2 running together)" % inv if concurrent else "", k, "" if other_at is None else ", attempt %d raises an unlisted one" % other_at, got, len(runs[inv]), res, m_runs)))
            break
    if any(ab[1] != 5 for ab in seen_args):
        viol.append(("C14.aretry", "arguments were not passed through on every attempt: %r" % (seen_args,)))
    ctx.label("two-invocations-in-flight", concurrent)
    ctx.label("retried", m_runs >= 2)
    ctx.label("exhausted", res is not None and res[0] == "exc" and res[1] != "Other")
    ctx.nontrivial(case)
    return viol


SUBS = [Sub("helpers", check, strategy=strategy, reduce=reduce_case, examples={"quick": 10000, "thorough": 400000}),
        Sub("together", check_together, strategy=strategy_together, examples={"quick": 2000, "thorough": 100000}),
        Sub("aretry-grid", check_retry, enumerate=retry_cells)]
