"""C13 -- async caches behave like their reference cache for every call history."""
import collections
import gc
import inspect

from hypothesis import strategies as st

from ..common import Sub
from ..e1 import engine

RULE = ("(histories) call histories (<= 14 calls quick) over <= 4 values per parameter, signatures (a) / (a, b=1) / (a, *, z=2) / (a, b=1, *, z=2), every "
        "spelling (positional, keyword, default omitted or given explicitly, keyword-only), bodies blocking on a batch or not and raising for a chosen "
        "argument; alru_cache(maxsize 1..4, key_fn None or first-argument-only) on functions and methods, acached_per_instance on 1-3 instances with instance "
        "deletion + gc. (lazy-constant) histories of call / advance clock / dirty on alazy_constant(ttl 0 or small) with a harness clock. Oracle: reference "
        "caches keyed by inspect.signature(...).bind(...) with defaults applied. non-trivial = a hit and a later miss on an evicted/other key, or two spellings "
        "of one call, or two calls differing only in one parameter; distinct = distinct case JSON The two functions of a decorator object are stamped out of one def with different defaults; two lazy constants are wrapped around one loader.")
ASSUMPTIONS = ["*args signatures are not generated: qcore.get_args_tuple (a dependency, not this repository) drops keyword-only values when varargs overflow the named parameters",
               "a method cached with alru_cache keeps one cache for all instances, keyed on the instance as well (as functools.lru_cache does)"]

SIGS = {
    "a": "def f({self}a):",
    "a_b": "def f({self}a, b=B):",
    "a_kz": "def f({self}a, *, z=Z):",
    "a_b_kz": "def f({self}a, b=B, *, z=Z):",
}
DEFAULTS = {"val": (1, 2), "val2": (-2, 3)}      # (b, z) of the first and of the second function stamped out of one def


class Boom(Exception):
    pass


def make(sig, method, blocking, log):
    """two functions produced by ONE def (one code object) inside a factory: same parameter names, different defaults"""
    from asynq.batching import DebugBatchItem
    src = "def factory(tag, B, Z):\n" + "".join("    " + ln + "\n" for ln in (SIGS[sig].format(self="self, " if method else "") + """
    params = dict(locals()); me = params.pop('self', None); params.pop('tag', None)
    key = [list(kv) for kv in sorted(params.items())]
    log.append(key)
    if blocking: yield DebugBatchItem("c13", 0)
    if params.get('a') == 3: raise Boom(key)
    if params.get('a') == 2: return None          # a legal result that is falsy / None ("find or None")
    return [tag, key, len(log)]
""").split("\n")) + "    return f\n"
    ns = {"log": log, "blocking": blocking, "DebugBatchItem": DebugBatchItem, "Boom": Boom}
    exec(src, ns)
    return ns["factory"]("val", *DEFAULTS["val"]), ns["factory"]("val2", *DEFAULTS["val2"])


def to_call(c):
    args, kwargs = [], {}
    if c["kw_a"]:
        kwargs["a"] = c["a"]
    else:
        args.append(c["a"])
    if c.get("b") is not None:
        if c["kw_b"] or c["kw_a"]:
            kwargs["b"] = c["b"]
        else:
            args.append(c["b"])
    if c.get("z") is not None:
        kwargs["z"] = c["z"]
    return args, kwargs


def strat_hist(tier):
    call = st.fixed_dictionaries({"a": st.sampled_from([-1, -2, 2, 3]), "b": st.one_of(st.none(), st.sampled_from([-1, -2, 0])), "z": st.one_of(st.none(), st.integers(1, 3)),
                                  "kw_a": st.booleans(), "kw_b": st.booleans(), "inst": st.integers(0, 2), "fn": st.integers(0, 1)})
    op = st.one_of(call.map(lambda c: ["call", c]), call.map(lambda c: ["call", c]), call.map(lambda c: ["call", c]),
                   st.tuples(st.just("drop"), st.integers(0, 2)).map(list))
    return st.fixed_dictionaries({
        "sig": st.sampled_from(sorted(SIGS)), "method": st.booleans(), "blocking": st.booleans(), "maxsize": st.integers(1, 4),
        "which": st.sampled_from(["alru", "alru", "alru_keyfn", "per_instance"]), "two_functions": st.booleans(),
        "ops": st.lists(op, min_size=2, max_size=14 if tier == "quick" else 40)})


def check_hist(case, ctx):
    from asynq import asynq as A
    from asynq.tools import alru_cache, acached_per_instance
    engine.reset_process_state()
    sig, method, blocking, maxsize, which = case["sig"], case["method"], case["blocking"], case["maxsize"], case["which"]
    if which == "per_instance":
        method = True
    log = []
    raw, raw2 = make(sig, method, blocking, log)
    two = bool(case.get("two_functions")) and which in ("alru", "per_instance")
    deco2 = None
    first_only = which == "alru_keyfn"
    if which == "alru":
        # ONE decorator object, applied to one or two functions: each decorated function has a cache of its own
        cached = alru_cache(maxsize=maxsize)
        deco = cached(A()(raw))
        if two:
            deco2 = cached(A()(raw2))
    elif which == "alru_keyfn":
        # a custom key function: only the first non-self argument matters
        def key_fn(args, kwargs):
            pos = list(args[1:] if method else args)
            return ("K", pos[0] if pos else kwargs["a"]) + ((id(args[0]),) if method else ())
        deco = alru_cache(maxsize=maxsize, key_fn=key_fn)(A()(raw))
    else:
        cachedpi = acached_per_instance()
        deco = cachedpi(A()(raw))
        if two:
            deco2 = cachedpi(A()(raw2))
    insts = []
    if method:
        K = type("K", (), {"f": deco, "g": deco2 if deco2 is not None else deco})
        insts = [K(), K(), K()]
    psigs = [inspect.signature(raw), inspect.signature(raw2)]
    model = collections.OrderedDict()
    viol = []
    classes = set()
    seen_norm = {}
    inst = fn = ba = None
    touched = set()     # instances that have a per-instance cache (created at their first call)

    def bad(clause, msg):
        viol.append(("C13." + clause, "%s on %s %s (maxsize %d, %s body), after ops %r: %s" % (which, "method" if method else "function", SIGS[sig].format(self=""), maxsize, "blocking" if blocking else "plain", case["ops"][:step + 1], msg)))

    for step, op in enumerate(case["ops"]):
        if op[0] == "drop":
            if which != "per_instance" or insts[op[1]] is None:
                continue
            inst = fn = ba = None      # the harness must not keep the instance alive itself
            insts[op[1]] = None
            for k in [k for k in model if k[0] == op[1]]:
                del model[k]
            touched = set(t for t in touched if t[0] != op[1])
            for fi_, d_ in ((0, deco), (1, deco2)):
                if d_ is None:
                    continue
                cache = d_.__acached_per_instance_cache__
                live = len([t for t in touched if t[1] == fi_])
                if len(cache) != live:
                    gc.collect()       # only needed if something formed a cycle
                if len(cache) != live:
                    bad("instance", "%d per-instance caches alive after an instance died, expected %d" % (len(cache), live))
            classes.add("instance-death")
            continue
        c = dict(op[1])
        if "b" not in sig:
            c["b"] = None
        if "kz" not in sig:
            c["z"] = None
        args, kwargs = to_call(c)
        which_inst = c["inst"] if method else None
        fi = c.get("fn", 0) if two else 0
        if method:
            if insts[which_inst] is None:
                continue
            inst = insts[which_inst]
            fn = inst.g if fi else inst.f
            ba = psigs[fi].bind(inst, *args, **kwargs)
        else:
            fn = deco2 if fi else deco
            ba = psigs[fi].bind(*args, **kwargs)
        ba.apply_defaults()
        items = sorted((k, v) for k, v in ba.arguments.items() if k != "self")
        pkey = [list(kv) for kv in items]
        if first_only:
            nkey = (which_inst, ("a", dict(items)["a"]), fi)
        else:
            nkey = (which_inst, tuple(items), fi)
        spelling = (tuple(args), tuple(sorted(kwargs.items())))
        if nkey in seen_norm and seen_norm[nkey] != spelling:
            classes.add("two-spellings")
        seen_norm.setdefault(nkey, spelling)
        for other in seen_norm:
            if other[0] == nkey[0] and other[2] == nkey[2] and other != nkey and not first_only and sum(1 for x, y in zip(other[1], nkey[1]) if x != y) == 1:
                classes.add("differ-in-one-parameter")
        before = len(log)
        if method:
            touched.add((which_inst, fi))
        try:
            got = ["ok", fn(*args, **kwargs)]
        except Boom as e:
            got = ["exc", e.args[0]]
        ran = len(log) > before
        if nkey in model:
            exp, exp_ran = ["ok", model[nkey]], False
            if which != "per_instance":
                model.move_to_end(nkey)
            classes.add("hit")
        else:
            exp_ran = True
            if "evicted:%r" % (nkey,) in classes:
                classes.add("re-miss-after-eviction")
            if dict(items).get("a") == 3:
                exp = ["exc", pkey]
                classes.add("raise-not-cached")
            else:
                exp = ["ok", None if dict(items).get("a") == 2 else ["val2" if fi else "val", pkey, before + 1]]
                mine = [k for k in model if k[2] == fi]
                if which != "per_instance" and len(mine) >= maxsize:
                    old = mine[0]                     # least recently used entry of THIS function's cache
                    del model[old]
                    classes.add("eviction")
                    classes.add("evicted:%r" % (old,))
                model[nkey] = exp[1]
                if exp[1] is None:
                    classes.add("none-result-cached")
                if two:
                    classes.add("two-functions-one-decorator")
        if (got, ran) != (exp, exp_ran):
            bad("reference", "call %s%r %r returned %r (body %s), reference cache says %r (body %s)" % ("inst%d." % which_inst if method else "", tuple(args), kwargs, got, "ran" if ran else "did not run", exp, "runs" if exp_ran else "does not run"))
            break
    for c in ("hit", "eviction", "re-miss-after-eviction", "two-spellings", "differ-in-one-parameter", "raise-not-cached", "instance-death", "none-result-cached", "two-functions-one-decorator"):
        ctx.label(c, c in classes)
    ctx.label("which=" + which)
    ctx.nontrivial(case, ("hit" in classes and "re-miss-after-eviction" in classes) or "two-spellings" in classes or "differ-in-one-parameter" in classes)
    return viol


def strat_lazy(tier):
    op = st.one_of(st.just(["call"]), st.just(["call"]), st.tuples(st.just("advance"), st.sampled_from([1, 40, 60, 100, 101, 250])).map(list), st.just(["dirty"]),
                   st.just(["call2"]), st.just(["dirty2"]))      # a second constant (no ttl) wrapped around the same loader
    return st.fixed_dictionaries({"ttl": st.sampled_from([0, 100]), "blocking": st.booleans(), "fail_on": st.sampled_from([None, None, 1, 2]),
                                  "ops": st.lists(op, min_size=2, max_size=14 if tier == "quick" else 30)})


def check_lazy(case, ctx):
    from asynq import asynq as A
    from asynq.tools import alazy_constant
    from asynq.batching import DebugBatchItem
    import asynq.tools as T
    engine.reset_process_state()
    clock = [10 ** 6]
    real_utime = T.utime
    T.utime = lambda: clock[0]
    n = [0]
    ttl, blocking, fail_on = case["ttl"], case["blocking"], case["fail_on"]
    viol = []
    try:
        @A()
        def loader():
            n[0] += 1
            if blocking:
                yield DebugBatchItem("c13l", 0)
            if n[0] == fail_on:
                raise Boom(n[0])
            return ["c", n[0]]
        consts = [alazy_constant(ttl=ttl)(loader), alazy_constant(ttl=0)(loader)]     # two constants, one loader
        ttls = [ttl, 0]
        cacheds = [None, None]       # per constant: (value, refresh time)
        classes = set()
        for step, op in enumerate(case["ops"]):
            if op[0] == "advance":
                clock[0] += op[1]
                continue
            which = 1 if op[0].endswith("2") else 0
            const, ttl, cached = consts[which], ttls[which], cacheds[which]
            if which:
                classes.add("second-constant")
            if op[0] in ("dirty", "dirty2"):
                const.dirty()
                if cached is not None:
                    classes.add("dirty")
                cacheds[which] = None
                continue
            before = n[0]
            try:
                got = ["ok", const()]
            except Boom as e:
                got = ["exc", e.args[0]]
            fresh = cached is not None and not (ttl != 0 and cached[1] < clock[0] - ttl)
            if cached is not None and not fresh:
                classes.add("expiry")
            if fresh:
                exp, exp_runs = ["ok", cached[0]], 0
                classes.add("hit")
            else:
                exp_runs = 1
                if before + 1 == fail_on:
                    exp = ["exc", before + 1]
                    # a failing body is not cached; an expired value is not resurrected as fresh
                else:
                    exp = ["ok", ["c", before + 1]]
                    cacheds[which] = (exp[1], clock[0])
            if got != exp or n[0] - before != exp_runs:
                viol.append(("C13.lazy_constant", "alazy_constant(ttl=%d) (one of two constants over one loader), after ops %r: call returned %r with %d recomputation(s), reference says %r with %d" % (ttl, case["ops"][:step + 1], got, n[0] - before, exp, exp_runs)))
                break
            if got[0] == "exc" and cached is not None and not fresh:
                # body failed while an expired value exists: the stale value stays expired
                pass
        for c in ("hit", "expiry", "dirty", "second-constant"):
            ctx.label("lazy-" + c, c in classes)
        ctx.nontrivial(case, "hit" in classes and ("expiry" in classes or "dirty" in classes))
    finally:
        T.utime = real_utime
    return viol


def reduce_ops(case):
    ops = case["ops"]
    for i in range(len(ops)):
        yield dict(case, ops=ops[:i] + ops[i + 1:])
    if case.get("blocking"):
        yield dict(case, blocking=False)
    if case.get("method"):
        yield dict(case, method=False)


SUBS = [Sub("histories", check_hist, strategy=strat_hist, reduce=reduce_ops, examples={"quick": 6000, "thorough": 250000}),
        Sub("lazy-constant", check_lazy, strategy=strat_lazy, reduce=reduce_ops, examples={"quick": 3000, "thorough": 100000})]
