"""C08 -- active task is always the running one; the scheduler is clean after any outcome."""
import copy
import json

from hypothesis import strategies as st

from ..common import Sub
from ..e1 import engine, gen, oracles

RULE = ("histories of 1-4 generated programs run one after another on the same thread WITHOUT resetting the scheduler, each with arbitrary failure points "
        "(task steps, items, raising and hard-failing flushes, failing lazy futures, contexts whose pause/resume raise, NonAsyncContext, a lowered "
        "MAX_TASK_STACK_SIZE), nested synchronous re-entry; after each program a fixed canary computation must behave as on a fresh scheduler. "
        "non-trivial = a history with >= 2 failing computations of different failure kinds; distinct = distinct history JSON. Library tools occur as leaves, incl. a deduplicated body that re-enters itself from a failure handler.")
ASSUMPTIONS = ["leftover *batches* are allowed (the statement speaks of tasks); the canary uses a batch kind of its own so orphan batches cannot change its groups",
               "the in-body active-task monitor is not consulted for computations run under a lowered MAX_TASK_STACK_SIZE (asynq resets the scheduler when the limit trips)"]

CANARY = {"root": {"id": 0, "via": "return", "body": [{"op": "yield", "catch": False, "y": ["L", [
    ["task", {"id": 1, "via": "return", "body": [{"op": "yield", "catch": False, "y": ["item", "canary", 1, "ok", 0]},
                                                  {"op": "yield", "catch": False, "y": ["item", "canary", 2, "ok", 1]}]}],
    ["task", {"id": 2, "via": "result", "body": [{"op": "with", "ctx": ["rec", 0], "body": [{"op": "yield", "catch": False, "y": ["T", [["item", "canary", 3, "ok", 2], ["const", 5]]]}]}]}]]]}]},
    "prio": {}, "faults": [], "conv": "call", "nsv": 2}


def canary_trace(reset):
    env = engine.run_program(copy.deepcopy(CANARY), reset=reset, check_c04=True, check_c06=True)
    tr = engine.trace(env)
    # every in-body / per-flush monitor of the engine (resume-once, start order, maximal batching, flush windows, context
    # activity) must stay as silent as on a fresh scheduler
    tr["monitors"] = sorted(set(c for c, m in env.viol if not c.startswith("C08")))
    tr["flushes"] = [f for f in tr["flushes"] if f[0] == "canary"]
    tr["steps"] = sum(1 for e in env.log if e[0] == "step")
    tr["foreign_flushes"] = sum(1 for e in env.events if e[0] == "before" and e[1] != "canary")
    tr["active_in_body"] = [m for c, m in env.viol if c.startswith("C08")]
    return tr, env


FRESH = None


def strategy(tier):
    cfg = gen.Cfg(max_tasks=10 if tier == "quick" else 25, sync=True, ctx=("rec", "ov"), failctx=True, na=True, dag=True, itemvalue=True, tools=("dd", "dd2", "alru", "agen", "amap", "amin", "retry", "cwc"),
                  flush_faults=("raise", "hard"), ok_w=8, convs=("call", "value", "wrapper"),
                  shapes=("reentry", "reentry", "tree", "comb", "chain", "diamond", "free", "free", "stagger"))
    entry = st.fixed_dictionaries({"prog": gen.programs(cfg), "stack_limit": st.sampled_from([None, None, None, None, 2, 4, 7])})
    return st.fixed_dictionaries({"history": st.lists(entry, min_size=1, max_size=4)})


def failure_kind(prog, env, limit):
    if limit is not None and env.outcome[0] == "escaped" and env.outcome[1] == "RuntimeError":
        return "stack-limit"
    if env.outcome[0] == "ok":
        return None
    k = env.outcome[1]
    if env.outcome[0] == "escaped":
        return "escaped:" + env.outcome[1]
    if isinstance(k, list):
        return k[0]
    return k


def check(case, ctx):
    global FRESH
    engine.reset_process_state()
    if FRESH is None:
        FRESH = canary_trace(True)[0]
        engine.reset_process_state()
    from asynq import scheduler, get_active_task
    import asynq.debug as D
    viol = []
    kinds = set()
    for n, entry in enumerate(case["history"]):
        prog, limit = entry["prog"], entry["stack_limit"]
        opts = {"MAX_TASK_STACK_SIZE": limit} if limit is not None else None
        try:
            env = engine.run_program(prog, reset=False, options=opts)
        finally:
            D.options.MAX_TASK_STACK_SIZE = engine._OPTION_DEFAULTS["MAX_TASK_STACK_SIZE"]
        # the client owning the harness batch kinds discards what an abandoned computation left pending
        # (leftover *batches* are not the scheduler's concern; a stale batch would be flushed while the canary waits)
        # ... except after the RuntimeError that stops runaway recursion in a yield-only program: there asynq itself
        # resets the scheduler, so nothing of the dead computation may be flushed during the next one
        runaway = limit is not None and env.yield_only and env.outcome[:2] == ["escaped", "RuntimeError"]
        for b in list(env.batches):      # cancel() switches the active batch, which creates a new (empty) one
            if not b.is_flushed() and not runaway:
                b.cancel()
        if runaway:
            ctx.label("runaway-with-pending-batches", any(not b.is_flushed() and b.items for b in env.batches))
        engine.finalize_abandoned(env)
        fk = failure_kind(prog, env, limit)
        if fk:
            kinds.add(fk)
            ctx.label("failure=" + fk.split(":")[0])
        if limit is None:
            viol += oracles.clauses(env, "C08.")
        s = scheduler.get_scheduler()
        if get_active_task() is not None:
            viol.append(("C08.active_after", "get_active_task() is %s after the outermost call of computation #%d returned (outcome %r)" % (type(get_active_task()).__name__, n, env.outcome)))
        if len(s._tasks) != 0:
            viol.append(("C08.retained", "the scheduler retains %d task(s) after computation #%d ended with %r" % (len(s._tasks), n, env.outcome)))
        try:
            str(s)
            repr(s)
        except Exception as e:
            viol.append(("C08.retained", "str(scheduler) raises %r after computation #%d" % (e, n)))
        if viol:
            break
        tr, cenv = canary_trace(False)
        if tr != FRESH:
            diff = [k for k in FRESH if FRESH[k] != tr.get(k)]
            viol.append(("C08.next", "after computation #%d (outcome %r) the next computation differs from a fresh scheduler in %r: %r vs fresh %r" % (n, env.outcome, diff, {k: tr.get(k) for k in diff}, {k: FRESH[k] for k in diff})))
            break
        if get_active_task() is not None or len(scheduler.get_scheduler()._tasks) != 0:
            viol.append(("C08.retained", "scheduler dirty after the canary following computation #%d" % n))
            break
    ctx.label("history>=2", len(case["history"]) >= 2)
    ctx.label("failing-computations>=2-kinds", len(kinds) >= 2)
    ctx.label("any-failure", bool(kinds))
    ctx.nontrivial(case, len(kinds) >= 2)
    return viol


def reduce_history(case):
    from ..e1 import reduce
    h = case["history"]
    for i in range(len(h)):
        if len(h) > 1:
            yield {"history": h[:i] + h[i + 1:]}
    for i in range(len(h)):
        if h[i]["stack_limit"] is not None:
            c = copy.deepcopy(case)
            c["history"][i]["stack_limit"] = None
            yield c
        for p in reduce.candidates(h[i]["prog"]):
            c = copy.deepcopy(case)
            c["history"][i]["prog"] = p
            yield c


def sizes(tier):
    from ..e1 import wide
    return [{"history": [{"wide": sp, "stack_limit": None}]} for sp in wide.specs(["fan-sync-first"], tier == "quick")]


def check_sizes(case, ctx):
    from ..e1 import wide
    expanded = {"history": [{"prog": wide.expand(e["wide"]), "stack_limit": e["stack_limit"]} for e in case["history"]]}
    out = check(expanded, _Quiet(ctx, case))
    return [(s, "%r: %s" % (case["history"][0]["wide"], m[:600])) for s, m in out]


class _Quiet(object):
    def __init__(self, ctx, case):
        self.ctx = ctx
        self.case = case

    def label(self, *a, **k):
        pass

    def nontrivial(self, case, on=True):
        self.ctx.label("wide:fan-sync-first")
        self.ctx.nontrivial(self.case)

SUBS = [Sub("histories", check, strategy=strategy, reduce=reduce_history, examples={"quick": 2500, "thorough": 100000}),
        Sub("sizes", check_sizes, enumerate=sizes)]
