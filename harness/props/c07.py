"""C07 -- context activations nest; scoped overrides read and restore as in sequential code."""
from ..common import Sub
from ..e1 import engine, gen, oracles, reduce

RULE = ("programs with AsyncScopedValue.override and async_override blocks on 2 shared values/attributes, reads at generated positions, nested and concurrent "
        "overrides in many pending tasks, synchronous re-entry, failures at any step; non-trivial = >= 2 tasks held overrides of the same value across a flush "
        "and a read happened after it; distinct = distinct program JSON. Bodies of library tools called by a task read the scoped value after their request came back.")
ASSUMPTIONS = ["reads inside tasks awaited by two parents (and below them) are not generated: their dynamic scope is genuinely ambiguous"]


def strategy(tier):
    return gen.programs(gen.Cfg(max_tasks=12 if tier == "quick" else 40, sync=True, ctx=("ov", "ov", "attr", "rec"), reads=True, dag=True, premade=True, tools=("amap", "agen", "cwc", "retry"), tool_reads=True, agen_modes=("plain",),
                                convs=("call", "value", "wrapper"), ok_w=20,
                                shapes=("ctxcomb", "ctxcomb", "ctxcomb", "stagger", "comb", "tree", "chain", "reentry", "diamond", "free", "free")))


def check(prog, ctx):
    env = oracles.first(prog)
    viol = oracles.lifo(env)
    r, exp = oracles.reference(prog, env)
    viol += oracles.compare_with_reference(env, r, exp, "C07.read")
    viol += oracles.restored(env)
    if not viol:
        env_b = oracles.again(prog, env)
        if env_b is not None:
            r_b, exp_b = oracles.reference(prog, env_b)
            viol += oracles.second(oracles.lifo(env_b) + oracles.compare_with_reference(env_b, r_b, exp_b, "C07.read") + oracles.restored(env_b))
            ctx.label("run-twice-on-one-scheduler")
    ctx.label("overrides-concurrent-across-flush", env.ov_span_flush > 0)
    ctx.label("read-after-that", env.reads_after_ov_flush > 0)
    ctx.label("reads", any(e[0] in ("read", "readattr") for rec in env.recs.values() for e in rec.got))
    ctx.label("outcome=" + env.outcome[0])
    ctx.label("shape=" + prog.get("shape", "?"))
    ctx.nontrivial(prog, env.ov_span_flush > 0 and env.reads_after_ov_flush > 0)
    return viol


def sizes(tier):
    from ..e1 import wide
    return wide.specs(["many-contexts"], tier == "quick")


def check_sizes(spec, ctx):
    from ..e1 import wide
    prog = wide.expand(spec)
    env = engine.run_program(prog)
    viol = oracles.lifo(env)
    r, exp = oracles.reference(prog, env)
    viol += oracles.compare_with_reference(env, r, exp, "C07.read")
    viol += oracles.restored(env)
    ctx.label("wide:" + spec["shape"])
    ctx.nontrivial(spec)
    return [(s, "%r: %s" % (spec, m[:600])) for s, m in viol]

SUBS = [Sub("overrides", check, strategy=strategy, reduce=reduce.candidates, examples={"quick": 8000, "thorough": 300000}),
        Sub("sizes", check_sizes, enumerate=sizes)]
