"""C09 -- all ways of calling an async function agree, for every kind of callable."""
import itertools

from hypothesis import strategies as st

from ..common import Sub
from ..e1 import engine

RULE = ("the finite matrix decorator {asynq, asynq pure, async_proxy, asynq+sync_fn, async_proxy+sync_fn, make_async_decorator, deduplicate, aretry, alru_cache, "
        "acached_per_instance} x binding {function, method via instance, via class, via subclass instance, classmethod (via subclass), staticmethod} x signature "
        "{(x), (x, y=10), (x, *, z=20), (x, y=10, *, z=20)} x body {plain return, generator yielding a child task, batch-blocking, raising}, from generated "
        "source; (matrix) every cell once with a canonical spelling, exhaustively; (spellings) Hypothesis draws cell, argument values and positional/keyword/"
        "default spellings. Every cell is non-trivial; distinct = distinct (cell, arguments, spelling) The class instances are distinct objects that compare equal (except under decorators keyed by the receiver); another instance always uses the callable first, also through async_call.")
ASSUMPTIONS = ["aretry / alru_cache / acached_per_instance are exercised on the bindings they are written for (functions and instance methods)",
               "@async_proxy(pure=True) returns the function unchanged and is not part of the property's enumerated domain (DESIGN.md note N2)"]

DECOS = ["asynq", "pure", "proxy", "pair", "proxy_pair", "mad", "mad_pure", "dedupe", "aretry", "alru", "per_instance"]
BINDINGS = ["function", "instance", "class", "subclass", "classmethod", "staticmethod"]
SIGS = {"x": "x", "x_y": "x, y=10", "x_kz": "x, *, z=20", "x_y_kz": "x, y=10, *, z=20"}
BODIES = ["plain", "gen", "block", "raise", "retfuture", "raise_base"]
FUNCTION_STYLE = ("aretry", "alru", "per_instance")


def cells():
    out = []
    for d, b, s, k in itertools.product(DECOS, BINDINGS, sorted(SIGS), BODIES):
        if d in FUNCTION_STYLE and b in ("classmethod", "staticmethod"):
            continue
        if d == "per_instance" and b == "function":
            continue
        out.append({"deco": d, "binding": b, "sig": s, "body": k})
    return out


CELLS = cells()


def body_src(kind, tag, recv, indent="    "):
    yv = "y" if True else ""
    pre = indent + "_y = locals().get('y'); _z = locals().get('z')\n"
    if kind == "retfuture" and tag != "sync":
        # the body's *result* is itself a future object (a handle the caller is meant to receive as is)
        return pre + indent + "return ConstFuture([%r, %s, x, _y, _z])\n" % (tag, recv)
    if kind == "plain" or tag == "sync" and kind not in ("raise", "raise_base"):
        return pre + indent + "return [%r, %s, x, _y, _z]\n" % (tag, recv)
    if kind == "gen":
        return pre + indent + "v = yield child.asynq(x)\n" + indent + "return [%r, %s, v, _y, _z]\n" % (tag, recv)
    if kind == "block":
        return pre + indent + "v = yield DebugBatchItem('c09', x)\n" + indent + "return [%r, %s, v, _y, _z]\n" % (tag, recv)
    if kind == "raise_base":
        return pre + indent + "raise BoomBase([%r, %s, x, _y, _z])\n" % (tag, recv)
    return pre + indent + "raise Boom([%r, %s, x, _y, _z])\n" % (tag, recv)


def fwd_args(sig):
    """forward the parameters of ``sig`` to an inner function taking (recv, x, y, z)"""
    return "x, %s, %s" % ("y" if "y" in sig else "None", "z" if "kz" in sig else "None")


def define(deco, kind, name, params, recv_param, recv_expr, wrap, sig):
    """source of one decorated callable called ``name``; wrap = '' | 'classmethod' | 'staticmethod'"""
    full = (recv_param + ", " if recv_param else "") + params
    ind = "    " if wrap or recv_param else ""
    src = ""
    w = (ind + "@%s\n" % wrap) if wrap in ("classmethod", "staticmethod") else ""
    inner_call = "_inner_%s.asynq(%s, %s)" % (kind, recv_expr, fwd_args(sig))

    def fn(decos, nm, body):
        return "".join(ind + "@" + d + "\n" for d in decos) + w + ind + "def %s(%s):\n" % (nm, full) + body

    if deco == "asynq":
        src += fn(["asynq()"], name, body_src(kind, "async", recv_expr, ind + "    "))
    elif deco == "pure":
        src += fn(["asynq(pure=True)"], name, body_src(kind, "async", recv_expr, ind + "    "))
    elif deco == "proxy":
        src += fn(["async_proxy()"], name, ind + "    return " + inner_call + "\n")
    elif deco == "pair":
        src += w + ind + "def _sync_%s(%s):\n" % (name, full) + body_src(kind, "sync", recv_expr, ind + "    ")
        src += fn(["asynq(sync_fn=_sync_%s)" % name], name, body_src(kind, "async", recv_expr, ind + "    "))
    elif deco == "proxy_pair":
        src += w + ind + "def _sync_%s(%s):\n" % (name, full) + body_src(kind, "sync", recv_expr, ind + "    ")
        src += fn(["async_proxy(sync_fn=_sync_%s)" % name], name, ind + "    return " + inner_call + "\n")
    elif deco == "mad":
        src += fn(["_mad", "asynq()"], name, body_src(kind, "async", recv_expr, ind + "    "))
    elif deco == "mad_pure":
        # a make_async_decorator wrapper over a *pure* async function: the wrapper itself has .asynq and is not pure
        src += fn(["_mad_pure", "asynq(pure=True)"], name, body_src(kind, "async", recv_expr, ind + "    "))
    elif deco == "dedupe":
        src += fn(["deduplicate()", "asynq()"], name, body_src(kind, "async", recv_expr, ind + "    "))
    elif deco == "aretry":
        src += fn(["aretry(Retry, max_tries=2, sleep=0)", "asynq()"], name, body_src(kind, "async", recv_expr, ind + "    "))
    elif deco == "alru":
        src += fn(["alru_cache()", "asynq()"], name, body_src(kind, "async", recv_expr, ind + "    "))
    elif deco == "per_instance":
        src += fn(["acached_per_instance()", "asynq()"], name, body_src(kind, "async", recv_expr, ind + "    "))
    return src


def module_src(deco, sig, kind):
    params = SIGS[sig]
    # (decorators that key a table by the receiver legitimately treat equal receivers as one: identity equality there)
    src = "EQUAL_INSTANCES = %r\n\n" % (deco not in ("alru", "per_instance", "dedupe"))
    src += "def _mad(fn):\n    def wrapper(*a, **k):\n        return fn.asynq(*a, **k)\n    return make_async_decorator(fn, wrapper, 'mad')\n\n"
    src += "def _mad_pure(fn):\n    def wrapper(*a, **k):\n        return fn(*a, **k)\n    return make_async_decorator(fn, wrapper, 'mad_pure')\n\n"
    src += "@asynq()\ndef child(x):\n    return ['child', x]\n\n"
    for k in BODIES:
        src += "@asynq()\ndef _inner_%s(recv, x, y, z):\n" % k
        src += {"plain": "    return ['async', recv, x, y, z]\n", "gen": "    v = yield child.asynq(x)\n    return ['async', recv, v, y, z]\n",
                "block": "    v = yield DebugBatchItem('c09', x)\n    return ['async', recv, v, y, z]\n", "raise": "    raise Boom(['async', recv, x, y, z])\n",
                "retfuture": "    return ConstFuture(['async', recv, x, y, z])\n",
                "raise_base": "    raise BoomBase(['async', recv, x, y, z])\n"}[k] + "\n"
    if not (deco == "per_instance"):
        src += define(deco, kind, "f", params, "", "None", "", sig) + "\n"
    src += "class Base(object):\n    def __init__(self, nm, truthy=True):\n        self.nm = nm\n        self.truthy = truthy\n\n    def __bool__(self):\n        return self.truthy\n\n    def __eq__(self, other):\n        return self is other or (EQUAL_INSTANCES and type(other) is type(self))      # value objects: every instance of the class compares equal\n\n    def __hash__(self):\n        return 7\n\n"
    src += define(deco, kind, "m", params, "self", "self.nm", "method", sig) + "\n"
    if deco not in FUNCTION_STYLE:
        src += define(deco, kind, "cm", params, "cls", "cls.__name__", "classmethod", sig) + "\n"
        src += define(deco, kind, "sm", params, "", "None", "staticmethod", sig) + "\n"
    src += "class Sub(Base):\n    pass\n"
    return src


_MODS = {}


def load(deco, sig, kind):
    key = (deco, sig, kind)
    if key not in _MODS:
        import asynq
        from asynq import asynq as A, async_proxy, make_async_decorator
        from asynq.tools import deduplicate, aretry, alru_cache, acached_per_instance
        from asynq.batching import DebugBatchItem
        ns = {"asynq": A, "async_proxy": async_proxy, "make_async_decorator": make_async_decorator, "deduplicate": deduplicate, "aretry": aretry,
              "alru_cache": alru_cache, "acached_per_instance": acached_per_instance, "DebugBatchItem": DebugBatchItem, "Boom": Boom, "BoomBase": BoomBase, "Retry": Retry, "ConstFuture": asynq.ConstFuture}
        src = module_src(deco, sig, kind)
        exec(compile(src, "<c09 %s %s %s>" % key, "exec"), ns)
        _MODS[key] = ns
    return _MODS[key]


class Boom(Exception):
    pass


class Retry(Exception):
    pass


class BoomBase(BaseException):
    """an outcome that is not an Exception subclass (an abort signal)"""


def outcome(thunk):
    try:
        r = thunk()
        from asynq import FutureBase
        if isinstance(r, FutureBase):
            r = ["<future object>", r.value()]
        return ["ok", r]
    except Boom as e:
        return ["exc", e.args[0]]
    except BoomBase as e:
        return ["excbase", e.args[0]]
    except BaseException as e:
        return ["other", type(e).__name__, str(e)[:160]]


def check(case, ctx):
    from asynq import asynq as A, async_call, is_async_fn, is_pure_async_fn, has_async_fn, get_async_fn, get_async_or_sync_fn, FutureBase
    engine.reset_process_state()
    deco, binding, sig, kind = case["deco"], case["binding"], case["sig"], case["body"]
    _MODS.pop((deco, sig, kind), None)      # fresh decorated objects (caches, dedupe tables) for every case
    ns = load(deco, sig, kind)
    x = case.get("x", 3)
    y = case.get("y")
    z = case.get("z")
    if "y" not in sig:
        y = None
    if "kz" not in sig:
        z = None
    args, kwargs = [], {}
    if case.get("x_kw"):
        kwargs["x"] = x
    else:
        args.append(x)
    if y is not None:
        if case.get("y_kw") or case.get("x_kw"):
            kwargs["y"] = y
        else:
            args.append(y)
    if z is not None:
        kwargs["z"] = z
    y_eff = (y if y is not None else 10) if "y" in sig else None
    z_eff = (z if z is not None else 20) if "kz" in sig else None
    truthy = not case.get("falsy_instance", False)
    inst = ns["Base"]("i1", truthy)
    subinst = ns["Sub"]("s1", truthy)
    # another instance of the same class touches the attribute first (per-class caches must not leak its binding)
    if binding in ("instance", "class", "subclass") and case.get("warm_other_instance", True):
        other = ns["Base"]("i0") if binding != "subclass" else ns["Sub"]("s0")
        if deco == "pure":
            outcome(lambda: other.m(1).value())
            outcome(lambda: async_call(other.m, 1))
        else:
            outcome(lambda: other.m(1))
            outcome(lambda: other.m.asynq(1).value())
            outcome(lambda: async_call(other.m, 1))
        outcome(lambda: ns["Base"].m)
    pre = []
    if binding == "function":
        c, recv = ns["f"], None
    elif binding == "instance":
        c, recv = inst.m, "i1"
    elif binding == "class":
        c, recv, pre = ns["Base"].m, "i1", [inst]
    elif binding == "subclass":
        c, recv = subinst.m, "s1"
    elif binding == "classmethod":
        c, recv = ns["Sub"].cm, "Sub"
    else:
        c, recv = ns["Base"].sm, None
    a = tuple(pre + args)
    xv = ["child", x] if kind == "gen" else x
    exp_async = ["exc", ["async", recv, x, y_eff, z_eff]] if kind == "raise" else ["ok", ["async", recv, xv, y_eff, z_eff]]
    if kind == "raise_base":
        exp_async = ["excbase", ["async", recv, x, y_eff, z_eff]]
    if kind == "retfuture":
        exp_async = ["ok", ["<future object>", ["async", recv, x, y_eff, z_eff]]]
    exp_sync = exp_async
    if deco in ("pair", "proxy_pair"):
        exp_sync = ["exc", ["sync", recv, x, y_eff, z_eff]] if kind == "raise" else ["excbase", ["sync", recv, x, y_eff, z_eff]] if kind == "raise_base" else ["ok", ["sync", recv, x, y_eff, z_eff]]
    pure = deco == "pure"
    got = {}
    if pure:
        got["call().value()"] = outcome(lambda: c(*a, **kwargs).value())
    else:
        got["sync call"] = outcome(lambda: c(*a, **kwargs))
        got[".asynq().value()"] = outcome(lambda: c.asynq(*a, **kwargs).value())

    @A()
    def from_task():
        fut = c(*a, **kwargs) if pure else c.asynq(*a, **kwargs)
        v = yield fut
        return v
    got["yield from a task"] = outcome(from_task)
    got["async_call"] = outcome(lambda: async_call.asynq(c, *a, **kwargs).value())
    got["async_call (sync)"] = outcome(lambda: async_call(c, *a, **kwargs))
    got["get_async_fn"] = outcome(lambda: get_async_fn(c)(*a, **kwargs).value())
    got["get_async_or_sync_fn"] = outcome(lambda: (lambda r: r.value() if isinstance(r, FutureBase) else r)(get_async_or_sync_fn(c)(*a, **kwargs)))
    viol = []
    desc = "%s on %s%s, signature (%s), %s body, called with %r %r" % (deco, binding, "" if truthy else " (instance with __bool__ False)", SIGS[sig], kind, tuple(args), kwargs)
    for conv, o in got.items():
        exp = exp_sync if conv == "sync call" else exp_async
        if o != exp:
            viol.append(("C09.agree:%s/%s" % (deco, binding), "%s: %s gives %r, the body applied to the bound receiver and normalised arguments gives %r" % (desc, conv, o, exp)))
            break
    # classification / conversion helpers
    truth = {"has_async_fn": not pure, "is_pure_async_fn": pure, "is_async_fn": True}
    seen = {"has_async_fn": has_async_fn(c), "is_pure_async_fn": is_pure_async_fn(c), "is_async_fn": is_async_fn(c)}
    if seen != truth:
        viol.append(("C09.classify:%s/%s" % (deco, binding), "%s: classification %r, but it can be called as %r" % (desc, seen, truth)))
    plain = ns["child"].fn if hasattr(ns["child"], "fn") else None
    if get_async_fn(lambda v: v) is not None or get_async_or_sync_fn(len) is not len or is_async_fn(len) or has_async_fn(len) or is_pure_async_fn(len):
        viol.append(("C09.classify:plain", "a plain callable is classified as asynchronous"))
    for conv, o in (("async_call.asynq(plain).value()", outcome(lambda: async_call.asynq(lambda v, w=2: ["plain", v, w], 5, w=6).value())),
                    ("async_call(plain)", outcome(lambda: async_call(lambda v, w=2: ["plain", v, w], 5, w=6)))):
        if o != ["ok", ["plain", 5, 6]]:
            viol.append(("C09.classify:plain", "%s on a plain callable gives %r, calling it directly gives ['plain', 5, 6]" % (conv, o)))
    wrapped = get_async_fn(lambda v: ["plain", v], wrap_if_none=True)
    if not (is_pure_async_fn(wrapped) and outcome(lambda: wrapped(5).value()) == ["ok", ["plain", 5]]):
        viol.append(("C09.classify:plain", "get_async_fn(plain, wrap_if_none=True) does not return a pure async function of the same result"))
    ctx.label("deco=" + deco)
    ctx.label("binding=" + binding)
    ctx.label("body=" + kind)
    ctx.label("keyword-spelling", bool(kwargs))
    ctx.label("falsy-instance", not truthy and binding in ("instance", "class", "subclass"))
    ctx.nontrivial(case)
    return viol


def enum_cells(tier):
    for c in CELLS:
        yield dict(c, x=3, y=None, z=None, x_kw=False, y_kw=False)
        yield dict(c, x=4, y=7, z=9, x_kw=False, y_kw=True)
        if c["binding"] in ("instance", "class", "subclass"):
            yield dict(c, x=5, y=None, z=None, x_kw=False, y_kw=False, falsy_instance=True)


def strategy(tier):
    return st.builds(lambda c, x, y, z, xk, yk, fi: dict(c, x=x, y=y, z=z, x_kw=xk, y_kw=yk, falsy_instance=fi), st.sampled_from(CELLS), st.integers(0, 5),
                     st.one_of(st.none(), st.integers(0, 5)), st.one_of(st.none(), st.integers(0, 5)), st.booleans(), st.booleans(), st.sampled_from([False, False, True]))


def reduce_case(case):
    for k, v in (("x_kw", False), ("y_kw", False), ("y", None), ("z", None), ("x", 0)):
        if case.get(k) != v:
            yield dict(case, **{k: v})
    if case["sig"] != "x":
        yield dict(case, sig="x")
    if case["body"] != "plain":
        yield dict(case, body="plain")


SUBS = [Sub("matrix", check, enumerate=enum_cells),
        Sub("spellings", check, strategy=strategy, reduce=reduce_case, examples={"quick": 3000, "thorough": 100000})]
