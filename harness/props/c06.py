"""C06 -- an AsyncContext is active exactly while its task, or work it awaits, runs."""
from ..common import Sub
from ..e1 import engine, gen, oracles, reduce, sim

RULE = ("(async-contexts) programs with recording AsyncContext blocks spanning 1..k yields, nested, in many concurrently pending tasks, left normally / by a "
        "delivered error / by an early result, with synchronous re-entry and DAG sharing; non-trivial = >= 2 tasks were inside a recording context across a "
        "flush, or a block was left by an exception. (nonasync) yield-only tree programs with NonAsyncContext blocks; non-trivial = some task yielded inside "
        "such a block. distinct = distinct program JSON. Blocks also occur inside async-generator bodies (consumed whole or by hand under the consumer's blocks) and around call_with_context.")
ASSUMPTIONS = ["for a task awaited by two parents nothing is asserted about which awaiter's contexts are active (only that unrelated tasks' contexts are paused)",
               "NonAsyncContext programs are yield-only trees (an inner synchronous flush could unblock children without the task ever being suspended for a top-level flush)",
               "contexts whose own pause/resume raise belong to C08's fault set and are not generated here"]


def strat_async(tier):
    return gen.programs(gen.Cfg(max_tasks=12 if tier == "quick" else 40, sync=True, ctx=("rec", "rec", "ov"), dag=True, premade=True, tools=("agen", "agen", "cwc", "dd", "alru", "amap"), convs=("call", "value", "wrapper"),
                                shapes=("ctxcomb", "ctxcomb", "chain", "tree", "comb", "stagger", "reentry", "reentry", "diamond", "free", "free")))


def exited_by_exception(env):
    # a pause immediately following a delivery: approximated statically by the log -- a context whose owner failed or caught
    return any(e and e[0] in ("caught",) for rec in env.recs.values() for e in rec.got) and env.nctx_entered > 0


def check_async(prog, ctx):
    env = oracles.first(prog, check_c06=True)
    viol = oracles.clauses(env, "C06.")
    viol += oracles.alternation(env)
    if not viol:
        env_b = oracles.again(prog, env, check_c06=True)
        if env_b is not None:
            viol += oracles.second(oracles.clauses(env_b, "C06.") + oracles.alternation(env_b))
            ctx.label("run-twice-on-one-scheduler")
    ctx.label("ctx>=2", len(env.ctxs) >= 2)
    ctx.label(">=2-tasks-in-ctx-across-flush", env.ctx_span_flush > 0)
    ctx.label("ctx-events>2", any(len(c.ev) > 3 for c in env.ctxs.values()))
    ctx.label("sync-reentry", not env.yield_only)
    ctx.label("outcome=" + env.outcome[0])
    ctx.label("shape=" + prog.get("shape", "?"))
    ctx.nontrivial(prog, env.ctx_span_flush > 0 or (len(env.ctxs) > 0 and exited_by_exception(env)))
    return viol


def strat_na(tier):
    return gen.programs(gen.Cfg(max_tasks=12 if tier == "quick" else 30, sync=False, ctx=(), na=True, dag=False, orphans=False,
                                shapes=("chain", "tree", "comb", "stagger", "free", "free")))


def has_na_yield(prog):
    def inside(body, na):
        for st in body:
            if st["op"] == "with":
                if inside(st["body"], na or st["ctx"][0] == "na"):
                    return True
            elif st["op"] == "try":
                if inside(st["body"], na):
                    return True
            elif st["op"] == "yield" and na:
                return True
        return False
    return any(inside(t["body"], False) for t in engine.all_tasks(prog["root"]))


def check_na(prog, ctx):
    env = engine.run_program(prog)
    s = sim.Sim(prog)
    exp = s.run()
    viol = []
    if s.deadlock:
        raise AssertionError("round simulator deadlocked (harness defect)")
    killed = [i.tid for i in s.inst.values() if i.killed]
    for i in s.inst.values():
        rec = env.recs.get(i.tid)
        if rec is None or not rec.started:
            viol.append(("C06.nonasync", "task %r never ran" % (i.tid,)))
            break
        if i.killed:
            err = rec.handle._error if rec.handle.is_computed() else None
            if not isinstance(err, AssertionError):
                viol.append(("C06.nonasync", "task %r has to be suspended for a flush inside a NonAsyncContext but was not failed with AssertionError (state: %s)" % (i.tid, "error %r" % (err,) if rec.handle.is_computed() else "not computed")))
                break
        elif i.done and not s.abandoned(i):
            if rec.got != i.got:
                viol.append(("C06.nonasync", "task %r observed %r; expected %r (NonAsyncContext must fail a task iff it has to be suspended inside it; tasks failed: %r)" % (i.tid, rec.got, i.got, killed)))
                break
    if not viol and env.outcome != exp:
        viol.append(("C06.nonasync", "root outcome %r, expected %r (tasks that must fail: %r)" % (env.outcome, exp, killed)))
    ctx.label("na-block-with-yield", has_na_yield(prog))
    ctx.label("na-failure", bool(killed))
    ctx.label("na-yield-not-suspended", has_na_yield(prog) and not killed)
    ctx.label("shape=" + prog.get("shape", "?"))
    ctx.nontrivial(prog, has_na_yield(prog))
    return viol


def sizes(tier):
    from ..e1 import wide
    return [dict(sp, ctx="rec") for sp in wide.specs(["many-contexts"], tier == "quick")]


def check_sizes(spec, ctx):
    from ..e1 import wide
    prog = wide.expand(spec)
    env = engine.run_program(prog, check_c06=True)
    viol = oracles.clauses(env, "C06.")
    viol += oracles.alternation(env)
    ctx.label("wide:many-contexts")
    ctx.nontrivial(spec)
    return [(s, "%r: %s" % (spec, m[:500])) for s, m in viol]


SUBS = [Sub("async-contexts", check_async, strategy=strat_async, reduce=reduce.candidates, examples={"quick": 6000, "thorough": 300000}),
        Sub("nonasync", check_na, strategy=strat_na, reduce=reduce.candidates, examples={"quick": 4000, "thorough": 150000}),
        Sub("sizes", check_sizes, enumerate=sizes)]
