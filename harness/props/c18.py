"""C18 -- diagnostics are faithful and total: glued tracebacks, stack, repr, filter."""
import importlib.util
import itertools
import os
import shutil
import sys
import tempfile
import traceback

from hypothesis import strategies as st

from ..common import Sub
from ..e1 import engine
from .. import sink

RULE = ("(glue) chains of distinct generated functions (real source files), depth 1..8 quick / ..40 thorough, raise at any level and step, intermediate levels "
        "that catch and re-raise or catch and continue, blocking or not, awaited by yield or called synchronously; non-trivial = the exception crosses >= 2 "
        "task levels. (stack) format_asynq_stack() inside every level of such chains. (filter) traceback line lists assembled from complete / truncated / "
        "sliced boilerplate runs of the three patterns and foreign lines incl. lines containing a pattern as a substring, vs an independently written "
        "reference rewriter; non-trivial = a complete run or a partial run is present. (totality) every object kind x lifecycle state x {str, repr, "
        "debug.str, debug.repr, dump(indent)} and format_error/dump_error on exceptions with/without traceback, _traceback, _task, chained, groups, "
        "non-exceptions, None x highlighting x filtering, enumerated. distinct = distinct case JSON")
ASSUMPTIONS = ["user objects whose own __repr__ raises are not generated",
               "format_asynq_stack entries are required to *name* each creating task's function (the exact line format differs between builds)"]

_DIR = None
_N = [0]


def scratch_dir():
    global _DIR
    if _DIR is None:
        _DIR = tempfile.mkdtemp(prefix="asynq-c18-")
        import atexit
        atexit.register(shutil.rmtree, _DIR, True)
    return _DIR


def load_source(src):
    _N[0] += 1
    name = "c18gen_%d_%d" % (os.getpid(), _N[0])
    path = os.path.join(scratch_dir(), name + ".py")
    with open(path, "w") as fh:
        fh.write(src)
    spec = importlib.util.spec_from_file_location(name, path)
    mod = importlib.util.module_from_spec(spec)
    sys.modules[name] = mod
    spec.loader.exec_module(mod)
    return mod, path, name


def unload(path, name):
    sys.modules.pop(name, None)
    try:
        os.remove(path)
    except OSError:
        pass


# ---- (a)+(b): chains -------------------------------------------------------------------------------

def strat_chain(tier):
    level = st.fixed_dictionaries({"pre_block": st.booleans(), "how": st.sampled_from(["yield", "yield", "yield_tuple", "sync", "made"]), "nosource": st.sampled_from([False, False, False, True]),
                                   "handler": st.sampled_from(["none", "none", "none", "reraise", "catch"]), "post_block": st.booleans(),
                                   "deco": st.sampled_from(["none", "none", "none", "dedupe", "alru", "aretry1", "aretry2", "mad"])})
    maxd = 8 if tier == "quick" else 40
    return st.fixed_dictionaries({"levels": st.lists(level, min_size=1, max_size=maxd), "raise_at": st.integers(0, maxd), "raise_via_helper": st.booleans(),
                                  "raise_after_block": st.booleans()})


WRAPPER_TASK = ("alru", "aretry1", "aretry2")     # decorators whose wrapper is a task level of its own (a generator in asynq/tools.py)


def effective_levels(case):
    """a level compiled from a string always awaits the next level with a plain yield"""
    d = len(case["levels"])
    r = min(case["raise_at"], d - 1)
    return [dict(lv, handler="none", how="yield", pre_block=False, post_block=False, deco="none") if lv.get("nosource") and i < r else dict(lv, deco=lv.get("deco", "none"))
            for i, lv in enumerate(case["levels"])]


def chain_source(case):
    levels = effective_levels(case)
    d = len(levels)
    r = min(case["raise_at"], d - 1)
    src = ["import asynq", "from asynq import asynq as A, make_async_decorator", "from asynq.tools import deduplicate, alru_cache, aretry", "from asynq.batching import DebugBatchItem", "STACKS = {}", "LINES = {}", "NOSOURCE_FIXUPS = []", "",
           "def _mad(fn):", "    def wrapper(*a, **k):", "        return fn.asynq(*a, **k)", "    return make_async_decorator(fn, wrapper, 'mad')", "",
           "class HExc(Exception):", "    pass", "", "def boom():", "    raise HExc('boom')", ""]
    for i, lv in enumerate(levels):
        name = "lvl_%02d_" % i
        if lv.get("nosource") and i < r:
            # a function compiled from a string: inspect cannot retrieve its source lines
            nxt = "lvl_%02d_" % (i + 1)
            body = "def %s():\n    if 0: yield\n    STACKS[%d] = asynq.debug.format_asynq_stack()\n    v = yield %s.asynq()  # CALL\n    return v\n" % (name, i, nxt)
            src.append("_ns = {'asynq': asynq, 'STACKS': STACKS}")
            src.append("exec(compile(%r, '<generated %s>', 'exec'), _ns)" % (body, name))
            src.append("%s = A()(_ns[%r])" % (name, name))
            src.append("_ns[%r] = None" % nxt)
            src.append("NOSOURCE_FIXUPS.append((_ns, %r))" % nxt)
            src.append("")
            continue
        deco = {"dedupe": "@deduplicate()", "alru": "@alru_cache()", "aretry1": "@aretry(HExc, max_tries=1, sleep=0)", "aretry2": "@aretry(HExc, max_tries=2, sleep=0)", "mad": "@_mad"}.get(lv.get("deco", "none"))
        if deco:
            src.append(deco)      # a decorator stack: the level is reached through a library wrapper
        src.append("@A()")
        src.append("def %s():" % name)
        src.append("    if 0: yield  # every level is a generator function (a plain function runs inside asynq's own wrapper frame)")
        src.append("    STACKS[%d] = asynq.debug.format_asynq_stack()" % i)
        src.append("    asynq.debug.dump_asynq_stack()")
        if lv["pre_block"]:
            src.append("    yield DebugBatchItem('c18', %d)" % i)
        if i == r:
            if case["raise_after_block"]:
                src.append("    yield DebugBatchItem('c18r', %d)" % i)
            src.append("    boom()  # RAISE" if case["raise_via_helper"] else "    raise HExc('direct')  # RAISE")
            src.append("")
            continue
        nxt = "lvl_%02d_" % (i + 1)
        call = {"yield": "v = yield %s.asynq()" % nxt, "yield_tuple": "v = yield (%s.asynq(), None)" % nxt, "sync": "v = %s()" % nxt, "made": "v = yield t"}[lv["how"]]
        if lv["how"] == "made":
            # the next level's task is created by a helper task that has finished by the time the next level runs
            src.append("    t = yield mk_%02d_.asynq()" % i)
        if lv["handler"] == "none":
            src.append("    " + call + "  # CALL")
        else:
            src.append("    try:")
            src.append("        " + call + "  # CALL")
            src.append("    except HExc:")
            src.append("        raise" if lv["handler"] == "reraise" else "        v = 'caught'")
        if lv["post_block"]:
            src.append("    yield DebugBatchItem('c18p', %d)" % i)
        src.append("    return v")
        src.append("")
    for i, lv in enumerate(levels):
        if lv["how"] == "made" and i < r:
            src += ["@A()", "def mk_%02d_():" % i, "    if 0: yield", "    return lvl_%02d_.asynq()" % (i + 1), ""]
    src.append("for _ns, _nm in NOSOURCE_FIXUPS:")
    src.append("    _ns[_nm] = globals()[_nm]")
    return "\n".join(src) + "\n", r


def check_chain(case, ctx):
    engine.reset_process_state()
    src, r = chain_source(case)
    mod, path, name = load_source(src)
    viol = []
    try:
        lines = src.split("\n")
        raise_line = next(n + 1 for n, l in enumerate(lines) if l.endswith("# RAISE"))
        boom_line = next(n + 1 for n, l in enumerate(lines) if l.strip() == "raise HExc('boom')")
        levels = effective_levels(case)
        catcher = max([i for i in range(r) if levels[i]["handler"] == "catch"] or [-1])
        err = None
        with sink.capture_print():
            import asynq.debug as D0
            try:
                D0.dump_asynq_stack()            # outside any task: says so, never raises
                if D0.format_asynq_stack() is not None:
                    viol.append(("C18.stack", "format_asynq_stack() outside any task returned a stack"))
            except Exception as e:
                viol.append(("C18.stack", "dump_asynq_stack() outside any task raised %r" % (e,)))
            try:
                mod.lvl_00_()
            except mod.HExc as e:
                err = e
            except BaseException as e:
                viol.append(("C18.glue", "chain %r: unexpected %s: %s" % (case, type(e).__name__, str(e)[:150])))
        desc = "chain of %d levels raising at level %d%s" % (len(levels), r, " (caught at level %d)" % catcher if catcher >= 0 else "")
        if catcher >= 0:
            if err is not None:
                viol.append(("C18.glue", "%s: the exception escaped although level %d catches it" % (desc, catcher)))
        elif not viol:
            if err is None:
                viol.append(("C18.glue", "%s: no exception reached the caller" % desc))
            else:
                frames = []
                tb = err.__traceback__
                while tb is not None:
                    if tb.tb_frame.f_code.co_filename == path or tb.tb_frame.f_code.co_filename.startswith("<generated lvl_"):
                        frames.append((tb.tb_frame.f_code.co_name, tb.tb_lineno))
                    tb = tb.tb_next
                names = [f[0] for f in frames]
                collapsed = [k for k, _ in itertools.groupby(names)]
                want = ["lvl_%02d_" % i for i in range(r + 1)] + (["boom"] if case["raise_via_helper"] else [])
                if collapsed != want:
                    viol.append(("C18.glue", "%s: traceback frames (generated functions only) are %r, expected one per task level in call order: %r" % (desc, collapsed, want)))
                elif frames[-1][1] != (boom_line if case["raise_via_helper"] else raise_line) or (case["raise_via_helper"] and [f for f in frames if f[0] == want[-2]][-1][1] != raise_line):
                    viol.append(("C18.glue", "%s: the traceback does not end at the raising line (frames %r, raising line %d)" % (desc, frames[-2:], raise_line)))
                # each library wrapper that is a task level contributes exactly one frame, in the raw traceback and in asynq's extractor
                raw_tools, tb = 0, err.__traceback__
                while tb is not None:
                    if tb.tb_frame.f_code.co_filename.replace("\\", "/").endswith("asynq/tools.py"):
                        raw_tools += 1
                    tb = tb.tb_next
                want_tools = sum(1 for i in range(r + 1) if levels[i].get("deco") in WRAPPER_TASK)
                if raw_tools != want_tools:
                    viol.append(("C18.glue", "%s: the traceback has %d frames of library wrapper tasks, the chain has %d such levels (decorators %r)" % (desc, raw_tools, want_tools, [levels[i].get("deco") for i in range(r + 1)])))
                # asynq's own extractor (which hides asynq's frames) must list the same user frames
                import asynq.debug as D
                try:
                    ex = [(e[2], e[1]) for e in D.extract_tb(err.__traceback__) if e[0] == path or e[0].startswith("<generated lvl_")]
                    if [k for k, _ in itertools.groupby([n for n, _ in ex])] != want:
                        viol.append(("C18.glue", "%s: debug.extract_tb lists the generated functions %r, expected %r" % (desc, [n for n, _ in ex], want)))
                    ex_tools = sum(1 for e in D.extract_tb(err.__traceback__) if e[0].replace("\\", "/").endswith("asynq/tools.py"))
                    if ex_tools != want_tools:
                        viol.append(("C18.glue", "%s: debug.extract_tb lists %d frames of library wrapper tasks, the chain has %d such levels" % (desc, ex_tools, want_tools)))
                    if not isinstance(D.format_tb(err.__traceback__), list):
                        viol.append(("C18.format_error", "%s: debug.format_tb did not return a list" % desc))
                    import logging
                    text = D.AsynqStackTracebackFormatter().formatException((type(err), err, err.__traceback__))
                    if any(("lvl_%02d_" % i) not in text for i in range(r + 1)):
                        viol.append(("C18.glue", "%s: AsynqStackTracebackFormatter output does not mention every task level" % desc))
                except Exception as e:
                    viol.append(("C18.format_error", "%s: extract_tb/format_tb/AsynqStackTracebackFormatter raised %r" % (desc, e)))
                # the formatted error must be producible and mention every level
                for hl in (False, True):
                    D.enable_traceback_syntax_highlight(hl)
                    try:
                        text = D.format_error(err)
                        if not hl and any(("lvl_%02d_" % i) not in text for i in range(r + 1)):
                            viol.append(("C18.glue", "%s: format_error() output does not mention every task level" % desc))
                    except Exception as e:
                        viol.append(("C18.format_error", "%s: format_error raised %r" % (desc, e)))
                D.enable_traceback_syntax_highlight(False)
        # (b) the asynq stack seen inside each level that ran
        reached = r if catcher < 0 or True else r
        for i, stack in sorted(mod.STACKS.items()):
            want_stack = []
            for j in range(i + 1):
                want_stack.append("lvl_%02d_" % j)
                if j < i and levels[j]["how"] == "made":
                    want_stack.append("mk_%02d_" % j)
            # tasks of the library itself (the wrapper generators of alru_cache / aretry in asynq/tools.py, the plain-function
            # wrapper of a synchronously called deduplicated function) are creators too: they may appear, the generated
            # functions must appear completely and in order
            is_lib = lambda e: "/asynq/decorators.py" in e.replace("\\", "/") or "/asynq/tools.py" in e.replace("\\", "/")
            ok = stack is not None
            k = 0
            for e in (stack or []):
                if k < len(want_stack) and want_stack[k] in e and not is_lib(e):
                    k += 1
                elif is_lib(e) or (k > 0 and want_stack[k - 1] in e):
                    continue        # a library task, or the library's wrapper task of the level just listed (it carries the function's name)
                else:
                    ok = False
                    break
            if not ok or k != len(want_stack) or want_stack[-1] not in stack[-1]:
                viol.append(("C18.stack", "%s: format_asynq_stack() inside level %d returned %r, expected that task and each task that created it, outermost first" % (desc, i, stack)))
                break
        if sorted(mod.STACKS) != list(range(r + 1)):
            viol.append(("C18.stack", "%s: levels that ran: %r" % (desc, sorted(mod.STACKS))))
        ctx.label("depth>=4", len(levels) >= 4)
        ctx.label("crosses>=2-levels", r >= 1 and catcher < 0)
        ctx.label("reraise-on-path", any(levels[i]["handler"] == "reraise" for i in range(r)))
        ctx.label("caught", catcher >= 0)
        ctx.label("task-created-by-a-finished-helper-on-path", any(levels[i]["how"] == "made" for i in range(r)))
        ctx.label("decorator-stack-on-path", any(levels[i].get("deco", "none") != "none" for i in range(r + 1)))
        ctx.label("sync-call-on-path", any(levels[i]["how"] == "sync" for i in range(r)))
        ctx.label("level-without-source", any(levels[i].get("nosource") for i in range(r)))
        ctx.nontrivial(case, r >= 1 and catcher < 0)
    finally:
        unload(path, name)
    return viol


def reduce_chain(case):
    lv = case["levels"]
    for i in range(len(lv)):
        if len(lv) > 1:
            yield dict(case, levels=lv[:i] + lv[i + 1:])
    for i in range(len(lv)):
        for k, v in (("pre_block", False), ("post_block", False), ("handler", "none"), ("how", "yield"), ("nosource", False), ("deco", "none")):
            if lv[i].get(k, v) != v:
                yield dict(case, levels=lv[:i] + [dict(lv[i], **{k: v})] + lv[i + 1:])
    if case["raise_at"] > 0:
        yield dict(case, raise_at=case["raise_at"] - 1)
    for k in ("raise_via_helper", "raise_after_block"):
        if case[k]:
            yield dict(case, **{k: False})


# ---- (c) filter_traceback ---------------------------------------------------------------------------

P = [
    ("___asynq_continue___", ["asynq.async_task.AsyncTask._continue", "asynq.async_task.AsyncTask._continue_on_generator", "asynq.async_task.AsyncTask._continue_on_generator"]),
    ("___asynq_future_raise_if_error___", ["asynq.decorators.AsyncDecorator.__call__", "asynq.futures.FutureBase.value", "asynq.futures.FutureBase.value", "asynq.futures.FutureBase.raise_if_error", "reraise", "six.reraise", "reraise", "value"]),
    ("___asynq_call_pure___", ["asynq.decorators.AsyncDecorator.asynq", "asynq.decorators.AsyncProxyDecorator._call_pure", "asynq.decorators.AsyncProxyDecorator._call_pure", "asynq.decorators.AsyncProxyDecorator._call_pure", "asynq.decorators.async_call"]),
]
FOREIGN = ["user_fn", "helper", "main", "raise value", "value_of", "AsyncTask._continue_helper", "myreraise", "x = reraise(value)", "    six.reraise(type(error), error, error._traceback)"]


def strat_filter(tier):
    seg = st.one_of(
        st.tuples(st.just("foreign"), st.integers(0, len(FOREIGN) - 1)).map(list),
        st.tuples(st.just("run"), st.integers(0, 2)).map(list),
        st.tuples(st.just("run"), st.integers(0, 2)).map(list),
        st.tuples(st.just("prefix"), st.integers(0, 2), st.integers(1, 7)).map(list),
        st.tuples(st.just("slice"), st.integers(0, 2), st.integers(0, 6), st.integers(1, 7)).map(list),
    )
    return st.fixed_dictionaries({"segments": st.lists(seg, max_size=7 if tier == "quick" else 14)})


def build_lines(case):
    out = []
    n = [0]

    def line(tok):
        n[0] += 1
        return '  File "x.py", line %d, in %s\n' % (n[0], tok)
    kinds = set()
    for s in case["segments"]:
        if s[0] == "foreign":
            out.append(line(FOREIGN[s[1]]))
        else:
            toks = P[s[1]][1]
            if s[0] == "run":
                part = toks
                kinds.add("complete")
            elif s[0] == "prefix":
                part = toks[:s[2]]
                kinds.add("complete" if len(part) == len(toks) else "partial")
            else:
                part = toks[s[2]:s[2] + s[3]]
                kinds.add("complete" if len(part) == len(toks) else "partial")
            out.extend(line(t) for t in part)
    return out, kinds


def reference_filter(lines):
    """independent statement of the rule: scanning left to right, at each position the first pattern (in declared
    order) whose tokens are substrings of the next len(pattern) lines -- all of them present -- is replaced by its
    marker; otherwise the line is copied unchanged"""
    out = []
    i = 0
    while i < len(lines):
        hit = None
        for name, toks in P:
            seg = lines[i:i + len(toks)]
            if len(seg) == len(toks) and all(t in l for t, l in zip(toks, seg)):
                hit = (name, len(toks))
                break
        if hit:
            out.append("  " + hit[0] + "\n")
            i += hit[1]
        else:
            out.append(lines[i])
            i += 1
    return out


def check_filter(case, ctx):
    from asynq.debug import filter_traceback
    lines, kinds = build_lines(case)
    got = filter_traceback(list(lines))
    exp = reference_filter(lines)
    viol = []
    if got != exp:
        viol.append(("C18.filter", "filter_traceback(%r) returned %r, expected %r" % (lines, got, exp)))
    else:
        kept = [l for l in got if not l.strip().startswith("___asynq")]
        it = iter(lines)
        if not all(any(k == x for x in it) for k in kept):
            viol.append(("C18.filter", "lines that survive are not a subsequence of the input: %r -> %r" % (lines, got)))
    ctx.label("complete-run", "complete" in kinds)
    ctx.label("partial-run", "partial" in kinds)
    ctx.label("collapsed", got != lines)
    ctx.label("partial-kept", "partial" in kinds and got == lines)
    ctx.nontrivial(case, bool(kinds))
    return viol


def reduce_filter(case):
    s = case["segments"]
    for i in range(len(s)):
        yield {"segments": s[:i] + s[i + 1:]}


# ---- (d) totality -----------------------------------------------------------------------------------

OBJECTS = ["future_pending", "future_ok", "future_err", "const", "errfut", "task_unstarted", "task_blocked", "task_blocked_deep", "scheduler_running_deep", "task_done", "task_failed", "task_self_value",
           "batch_pending", "batch_flushed", "batch_cancelled", "item_pending", "item_done", "item_err", "debug_batch", "debug_item", "scheduler_idle",
           "scheduler_running", "scoped_value", "scoped_value_tuple", "scoped_value_empty_tuple", "override_ctx", "override_ctx_tuple", "attr_override_ctx", "attr_override_ctx_tuple", "asyncgen_fresh", "asyncgen_mid", "asyncgen_stopped", "decorated_fn",
           "bound_method", "pure_fn", "proxy_fn", "dedupe_fn", "nonasync_ctx", "async_timer"]
RENDER = ["str", "repr", "debug.str", "debug.repr", "dump0", "dump3", "dump50"]


DEEP = 1500        # more awaiting levels than the interpreter's recursion limit


def total_cases(tier):
    for o, r in itertools.product(OBJECTS, RENDER):
        yield {"kind": "object", "object": o, "render": r}
    for e, hl, ft in itertools.product(ERRORS, [False, True], [False, True]):
        yield {"kind": "error", "error": e, "highlight": hl, "filter": ft}


ERRORS = ["none", "plain", "raised", "raised_tb_arg", "traceback_none", "string", "object", "weird_str", "base_exception", "chained", "asynq_glued",
          "asynq_glued_tb_arg", "exception_group", "with_task"]


def make_object(kind):
    import asynq
    from asynq import asynq as A, Future, ConstFuture, ErrorFuture, AsyncScopedValue, async_override, async_generator, Value, NonAsyncContext, async_proxy
    from asynq.batching import DebugBatchItem, BatchBase, BatchItemBase
    from asynq.tools import deduplicate, AsyncTimer
    env = engine.Env({"root": {"id": 0, "body": []}, "prio": {}})
    box = {}

    @A()
    def blocker(x):
        v = yield engine.HItem(env, "a", x, "ok", x)
        return v

    @A()
    def failing():
        raise ValueError("task failed")
        yield

    def err_provider():
        raise ValueError("provider")
    if kind == "future_pending":
        return Future(lambda: 1)
    if kind == "future_ok":
        f = Future(lambda: [1, 2]); f.value(); return f
    if kind == "future_err":
        f = Future(err_provider)
        try:
            f.value()
        except ValueError:
            pass
        return f
    if kind == "const":
        return ConstFuture({"k": 1})
    if kind == "errfut":
        return ErrorFuture(KeyError("e"))
    if kind == "task_unstarted":
        return blocker.asynq(1)
    if kind == "task_done":
        t = blocker.asynq(2); t.value(); return t
    if kind == "task_failed":
        t = failing.asynq()
        try:
            t.value()
        except ValueError:
            pass
        return t
    if kind == "task_self_value":
        t = blocker.asynq(3); t.set_value(t); return t
    if kind in ("task_blocked", "scheduler_running", "task_blocked_deep", "scheduler_running_deep"):
        out = {}
        deep = kind.endswith("_deep")

        @A()
        def chain(n):
            # a task blocked on a task blocked on ... (DEEP levels) ... blocked on a batch item
            if n == 0:
                v = yield engine.HItem(env, "a", 5, "ok", 5)
            else:
                v = yield chain.asynq(n - 1)
            return v

        @A()
        def observer():
            child = blocker.asynq(4)
            yield None
            yield DebugBatchItem("c18obs", 0)
            return child

        @A()
        def parent():
            c = chain.asynq(DEEP) if deep else blocker.asynq(5)
            box["child"] = c
            o = probe.asynq(c)
            yield [c, o]

        @A()
        def probe(c):
            # runs while ``c`` (started before us) is blocked on its batch item
            box["render"](c if kind.startswith("task_blocked") else asynq.scheduler.get_scheduler())
            return None
            yield
        box["deferred"] = parent
        return box
    if kind in ("batch_pending", "item_pending"):
        it = engine.HItem(env, "a", 1, "ok", 1)
        return it.batch if kind == "batch_pending" else it
    if kind in ("batch_flushed", "item_done", "item_err"):
        it = engine.HItem(env, "a", 1, "ok" if kind != "item_err" else "err", 1)
        it.batch.flush()
        return it.batch if kind == "batch_flushed" else it
    if kind == "batch_cancelled":
        it = engine.HItem(env, "a", 1, "ok", 1)
        it.batch.cancel()
        return it.batch
    if kind == "debug_batch":
        return DebugBatchItem("c18d", 1).batch
    if kind == "debug_item":
        return DebugBatchItem("c18d", 1)
    if kind == "scheduler_idle":
        return asynq.scheduler.get_scheduler()
    if kind == "scoped_value":
        return AsyncScopedValue({"a": 1})
    if kind == "scoped_value_tuple":
        return AsyncScopedValue((1, "two"))
    if kind == "scoped_value_empty_tuple":
        return AsyncScopedValue(())
    if kind == "override_ctx":
        return AsyncScopedValue(1).override(2)
    if kind == "override_ctx_tuple":
        return AsyncScopedValue((1, 2)).override((3,))
    if kind == "attr_override_ctx_tuple":
        return async_override(env.objs[0], "attr", (4, 5, 6))
    if kind == "attr_override_ctx":
        return async_override(env.objs[0], "attr", 3)
    if kind.startswith("asyncgen"):
        @async_generator()
        def g():
            yield Value(1)
            yield ConstFuture(2)
            yield Value(3)
        gen = g()
        if kind == "asyncgen_mid":
            next(gen).value()
        elif kind == "asyncgen_stopped":
            from asynq import list_of_generator
            list_of_generator(gen)
        return gen
    if kind == "decorated_fn":
        return blocker

    class K(object):
        @A()
        def m(self, x):
            return x

        def __repr__(self):
            return "K()"
    if kind == "bound_method":
        return K().m
    if kind == "pure_fn":
        return A(pure=True)(lambda x: x)
    if kind == "proxy_fn":
        return async_proxy()(lambda x: ConstFuture(x))
    if kind == "dedupe_fn":
        return deduplicate()(blocker)
    if kind == "nonasync_ctx":
        return NonAsyncContext()
    if kind == "async_timer":
        return AsyncTimer()
    raise AssertionError(kind)


def render(obj, how):
    import asynq.debug as D
    if how == "str":
        return str(obj)
    if how == "repr":
        return repr(obj)
    if how == "debug.str":
        return D.str(obj)
    if how == "debug.repr":
        return D.repr(obj)
    indent = {"dump0": 0, "dump3": 3, "dump50": 50}[how]
    if hasattr(obj, "dump"):
        return obj.dump(indent)
    return D.write(D.str(obj), indent)


def make_error(kind):
    from asynq import asynq as A
    from asynq.batching import DebugBatchItem
    if kind == "none":
        return None, {}
    if kind == "plain":
        return ValueError("x"), {}
    if kind in ("raised", "raised_tb_arg"):
        try:
            1 / 0
        except ZeroDivisionError as e:
            return e, ({"tb": e.__traceback__} if kind == "raised_tb_arg" else {})
    if kind == "traceback_none":
        e = KeyError("k"); e._traceback = None
        return e, {}
    if kind == "string":
        return "a string", {}
    if kind == "object":
        return object(), {}
    if kind == "weird_str":
        class W(Exception):
            def __str__(self):
                return "\xfcn\xefc\xf6d\xe9 \x00 \udcff"
        return W(), {}
    if kind == "base_exception":
        class BE(BaseException):
            pass
        return BE("b"), {}
    if kind == "chained":
        try:
            try:
                raise ValueError("inner")
            except ValueError as i:
                raise KeyError("outer") from i
        except KeyError as e:
            return e, {}
    if kind in ("asynq_glued", "asynq_glued_tb_arg"):
        @A()
        def lvl2():
            yield DebugBatchItem("b", 1)
            raise ValueError("deep")

        @A()
        def lvl1():
            yield lvl2.asynq()
        try:
            lvl1()
        except ValueError as e:
            return e, ({"tb": e.__traceback__} if kind.endswith("tb_arg") else {})
    if kind == "exception_group":
        return ExceptionGroup("g", [ValueError("a"), KeyError("b")]), {}
    if kind == "with_task":
        @A()
        def t():
            return 1
        e = RuntimeError("r"); e._task = t.asynq()
        return e, {}
    raise AssertionError(kind)


def check_total(case, ctx):
    import asynq.debug as D
    engine.reset_process_state()
    viol = []
    if case["kind"] == "object":
        kind, how = case["object"], case["render"]
        with sink.capture_print():
            try:
                obj = make_object(kind)
                if isinstance(obj, dict) and "deferred" in obj:
                    res = {}

                    def do(o):
                        try:
                            res["out"] = render(o, how)
                        except BaseException as e:
                            res["exc"] = e
                    obj["render"] = do
                    obj["deferred"]()
                    if "exc" in res:
                        raise res["exc"]
                    if "out" not in res and "exc" not in res:
                        raise AssertionError("probe did not run")
                else:
                    out = render(obj, how)
                    if how in ("str", "repr", "debug.str", "debug.repr") and not isinstance(out, str):
                        viol.append(("C18.total:" + kind, "%s(%s) returned %r" % (how, kind, type(out))))
            except AssertionError:
                raise
            except Exception as e:
                viol.append(("C18.total:" + kind, "%s of a %s raised %s: %s" % (how, kind.replace("_", " "), type(e).__name__, str(e)[:200])))
        ctx.label("object=" + kind)
    else:
        kind, hl, ft = case["error"], case["highlight"], case["filter"]
        err, kw = make_error(kind)
        D.enable_traceback_syntax_highlight(hl)
        D.enable_filter_traceback(ft)
        try:
            with sink.capture_print():
                try:
                    r = D.format_error(err, **kw)
                    if not (r is None or isinstance(r, str)):
                        viol.append(("C18.format_error:" + kind, "format_error returned %r" % (type(r),)))
                    if err is None and r is not None:
                        viol.append(("C18.format_error:" + kind, "format_error(None) returned %r" % (r,)))
                    D.dump_error(err, **kw)
                except Exception as e:
                    viol.append(("C18.format_error:" + kind, "format_error/dump_error on %s (highlight=%s, filter=%s) raised %s: %s" % (kind.replace("_", " "), hl, ft, type(e).__name__, str(e)[:200])))
        finally:
            D.enable_traceback_syntax_highlight(False)
            D.enable_filter_traceback(True)
        ctx.label("error=" + kind)
    ctx.nontrivial(case)
    return viol


SUBS = [Sub("chains", check_chain, strategy=strat_chain, reduce=reduce_chain, examples={"quick": 1500, "thorough": 40000}),
        Sub("filter", check_filter, strategy=strat_filter, reduce=reduce_filter, examples={"quick": 6000, "thorough": 200000}),
        Sub("totality", check_total, enumerate=total_cases)]
