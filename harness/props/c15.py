"""C15 -- fn.asyncio() under an event loop matches the asynq result."""
import asyncio

from ..common import Sub, shape, digest, canon
from ..e1 import engine, gen, ref, reduce

RULE = ("batch-free generated programs (trees of tasks, constant futures, None, functions with an explicit asyncio_fn, nested and empty tuple/list/dict "
        "structures, raises and try/except at any level, caught-then-yield-again), entered through a function, a bound method or an async_proxy; the same "
        "generated body runs under the asynq scheduler and under asyncio.run(fn.asyncio()); non-trivial = >= 2 tasks and (a nested structure or a failure "
        "delivered at a yield with >= 2 awaitables); distinct = distinct case JSON")
ASSUMPTIONS = ["ErrorFuture, lazy Future, batch items and result() are outside the property's stated domain and are not generated (DESIGN.md note N1)",
               "the asyncio-mode flag is observed by a driver coroutine that awaits fn.asyncio() directly (same contextvars context)"]


class HExc(Exception):
    def __init__(self, key):
        Exception.__init__(self, key)
        self.key = key


def strategy(tier):
    from hypothesis import strategies as st
    cfg = gen.Cfg(max_tasks=12 if tier == "quick" else 30, batch_free=True, probes=True, sync=False, ctx=(), dag=False, early_result=False,
                  lazy_raise=False, bad=False, unset=False, convs=("value",), prio="default", catch_p=2,
                  shapes=("chain", "tree", "free", "free", "free", "comb"))
    return st.fixed_dictionaries({"prog": gen.programs(cfg), "entry": st.sampled_from(["function", "method", "proxy"]),
                                  "plain_tail": st.sampled_from([None, "ok", "raise", "raise"]),
                                  "bad_call": st.sampled_from([None, None, "extra-positional", "missing", "unknown-keyword"])})


def make_world():
    """the generic body, written once, reachable as function / method / async_proxy"""
    from asynq import asynq as A, async_proxy, async_call, ConstFuture, none_future, is_asyncio_mode

    W = {"log": [], "done": set(), "viol": [], "mode_seen": set()}

    async def afn_async(v):
        await asyncio.sleep(0)
        return ["afn", v]

    @A(asyncio_fn=afn_async)
    def afn(v):
        return ["afn", v]

    @A()
    def quick():
        return 1

    # an async_proxy without an explicit asyncio_fn, used many times with different arguments
    @async_proxy()
    def pfn(v):
        return ConstFuture(["pfn", v])

    # async_call (an async_proxy with an explicit asyncio_fn) on an @asynq() function, a plain function, a pure async function
    @A()
    def ac_async(v):
        return ["ac", 0, v]

    def ac_plain(v):
        return ["ac", 1, v]

    @A(pure=True)
    def ac_pure(v):
        return ["ac", 2, v]
    ac_targets = [ac_async, ac_plain, ac_pure]

    def build(s, kids):
        if s is None:
            return None
        tag = s[0]
        if tag == "T":
            return tuple([build(x, kids) for x in s[1]])
        if tag == "L":
            return [build(x, kids) for x in s[1]]
        if tag == "D":
            return dict([(k, build(x, kids)) for k, x in s[1]])
        if tag == "task":
            kids.append(s[1]["id"])
            return run_task.asynq(s[1])
        if tag == "const":
            return ConstFuture(s[1])
        if tag == "nonef":
            return none_future
        if tag == "afn":
            return afn.asynq(s[1])
        if tag == "excval":
            return ConstFuture(ValueError(s[1]))
        if tag == "pfn":
            return pfn.asynq(s[1])
        if tag == "acall":
            return async_call.asynq(ac_targets[s[1]], s[2])
        raise AssertionError(tag)

    def block(t, body, got):
        tid = t["id"]
        for st_ in body:
            op = st_["op"]
            W["mode_seen"].add(is_asyncio_mode())
            if op == "yield":
                kids = []
                y = build(st_["y"], kids)
                try:
                    v = yield y
                except HExc as e:
                    missing = [k for k in kids if k not in W["done"]]
                    if missing:
                        W["viol"].append("task %r received %r at a yield while task(s) %r yielded alongside had not finished" % (tid, e.key, missing))
                    if not st_["catch"]:
                        raise
                    got.append(["caught", canon(e.key)])
                else:
                    got.append(["ok", shape(v)])
            elif op == "try":
                try:
                    yield from block(t, st_["body"], got)
                except HExc as e:
                    got.append(["caught", canon(e.key)])
            elif op == "raise":
                raise HExc(("raise", tid, st_["sid"]))
            elif op == "probe":
                try:
                    quick()
                    got.append(["probe", "sync-ok"])
                except RuntimeError:
                    got.append(["probe", "sync-RuntimeError"])
            else:
                raise AssertionError(op)

    @A()
    def run_task(t):
        got = W.setdefault("trans", {}).setdefault(t["id"], [])
        try:
            yield from block(t, t["body"], got)
        finally:
            W["done"].add(t["id"])
        return ["tv", t["id"], digest(got)]

    class Obj(object):
        @A()
        def run_m(self, t):
            v = yield run_task.asynq(t)
            return v

    @async_proxy()
    def proxy(t):
        return run_task.asynq(t)

    @A()
    def plain(fail):
        # a function without any yield: .asyncio() runs it directly
        W["mode_seen"].add(is_asyncio_mode())
        if fail:
            raise HExc(("plain",))
        return ["plain", 1]

    W.update(run_task=run_task, obj=Obj(), proxy=proxy, plain=plain, quick=quick)
    return W


# calls whose arguments do not fit the signature (an extra positional one / none at all / an unknown keyword)
BAD_CALLS = {"extra-positional": lambda t: ((t, 1), {}), "missing": lambda t: ((), {}), "unknown-keyword": lambda t: ((t,), {"bogus": 1})}


def W_bad_target(W, entry):
    # the generator function itself or the method (a proxy forwards its arguments: the generator functions behind it are the same)
    return W["obj"].run_m if entry == "method" else W["run_task"]


def check(case, ctx):
    from asynq import is_asyncio_mode
    prog, entry = case["prog"], case["entry"]
    engine.reset_process_state()
    viol = []

    def outcome(thunk):
        try:
            return ["ok", shape(thunk())]
        except HExc as e:
            return ["exc", canon(e.key)]
        except BaseException as e:
            return ["escaped", type(e).__name__, str(e)[:200]]

    def target(W):
        return {"function": W["run_task"], "method": W["obj"].run_m, "proxy": W["proxy"]}[entry]

    # --- under the asynq scheduler ---
    Wa = make_world()
    a = outcome(lambda: target(Wa)(prog["root"]))
    ra = ref.Ref(prog)
    ea = ra.run()
    # --- under asyncio ---
    Wb = make_world()
    flags = {}

    async def driver():
        flags["before"] = is_asyncio_mode()
        try:
            return ["ok", shape(await target(Wb).asyncio(prog["root"]))]
        except HExc as e:
            return ["exc", canon(e.key)]
        finally:
            flags["after"] = is_asyncio_mode()
            # the same coroutine goes on: a plain (non-generator) @asynq function awaited directly, returning or raising
            tail = case.get("plain_tail")
            if tail:
                try:
                    flags["tail"] = ["ok", await Wb["plain"].asyncio(tail == "raise")]
                except HExc as e:
                    flags["tail"] = ["exc", canon(e.key)]
                flags["after_tail"] = is_asyncio_mode()
                try:
                    flags["sync_after_tail"] = ["ok", Wb["quick"]()]
                except RuntimeError as e:
                    flags["sync_after_tail"] = ["RuntimeError", str(e)[:60]]
            # ... and a call whose arguments do not fit the signature: the failure happens before the body's first statement
            bad = case.get("bad_call")
            if bad:
                bargs, bkw = BAD_CALLS[bad](prog["root"])
                fnb = W_bad_target(Wb, entry)
                try:
                    flags["bad"] = ["ok", shape(await fnb.asyncio(*bargs, **bkw))]
                except TypeError:
                    flags["bad"] = ["TypeError"]
                flags["after_bad"] = is_asyncio_mode()
                try:
                    flags["sync_after_bad"] = ["ok", Wb["quick"]()]
                except RuntimeError as e:
                    flags["sync_after_bad"] = ["RuntimeError", str(e)[:60]]

    try:
        b = asyncio.run(driver())
    except BaseException as e:
        b = ["escaped", type(e).__name__, str(e)[:200]]
    rb = ref.Ref(prog)
    rb.probe_value = "sync-RuntimeError"
    eb = rb.run()
    desc = "entered through a %s" % entry
    if a != ea:
        viol.append(("C15.asynq_reference", "%s: fn() gives %r, sequential evaluation gives %r" % (desc, a, ea)))
    if b != eb:
        viol.append(("C15.same_result", "%s: awaiting fn.asyncio() gives %r, fn() gives %r" % (desc, b, a if a == ea else ea)))
    else:
        for tid, got in rb.trans.items():
            if Wb.get("trans", {}).get(tid) != got:
                viol.append(("C15.same_result", "%s: under asyncio task %r observed %r, expected %r" % (desc, tid, Wb.get("trans", {}).get(tid), got)))
                break
    for m in Wb["viol"]:
        viol.append(("C15.await_all", desc + ": " + m))
        break
    if flags.get("before") is not False or flags.get("after") is not False:
        viol.append(("C15.mode_flag", "%s: is_asyncio_mode() was %r before and %r after awaiting fn.asyncio() (outcome %r)" % (desc, flags.get("before"), flags.get("after"), b)))
    tail = case.get("plain_tail")
    if tail:
        exp_tail = ["exc", ["plain"]] if tail == "raise" else ["ok", ["plain", 1]]
        if flags.get("tail") != exp_tail:
            viol.append(("C15.same_result", "%s: awaiting plain.asyncio() gives %r, plain() gives %r" % (desc, flags.get("tail"), exp_tail)))
        if flags.get("after_tail") is not False or flags.get("sync_after_tail") != ["ok", 1]:
            viol.append(("C15.mode_flag", "%s: after awaiting a plain @asynq function's .asyncio() that %s, is_asyncio_mode() is %r and a synchronous call of an @asynq() function gives %r" % (desc, "raised" if tail == "raise" else "returned", flags.get("after_tail"), flags.get("sync_after_tail"))))
    bad = case.get("bad_call")
    if bad:
        bargs, bkw = BAD_CALLS[bad](prog["root"])
        try:
            exp_bad = ["ok", shape(W_bad_target(Wa, entry)(*bargs, **bkw))]
        except TypeError:
            exp_bad = ["TypeError"]
        if flags.get("bad") != exp_bad:
            viol.append(("C15.same_result", "%s: awaiting fn.asyncio() with %s argument gives %r, fn() gives %r" % (desc, bad, flags.get("bad"), exp_bad)))
        if flags.get("after_bad") is not False or flags.get("sync_after_bad") != ["ok", 1]:
            viol.append(("C15.mode_flag", "%s: after awaiting fn.asyncio() called with %s argument (%r), is_asyncio_mode() is %r and a synchronous call of an @asynq() function gives %r" % (
                desc, bad, flags.get("bad"), flags.get("after_bad"), flags.get("sync_after_bad"))))
    if is_asyncio_mode():
        viol.append(("C15.mode_flag", "is_asyncio_mode() is on outside any event loop"))
    if Wb["mode_seen"] - {True}:
        viol.append(("C15.mode_flag", "is_asyncio_mode() was off inside a body running under fn.asyncio()"))
    if Wa["mode_seen"] - {False}:
        viol.append(("C15.mode_flag", "is_asyncio_mode() was on inside a body running under the asynq scheduler"))
    st_ = gen.stats(prog)
    ctx.label("entry=" + entry)
    ctx.label("outcome=" + ea[0])
    ctx.label("nested", st_["nested"])
    ctx.label("caught", any(e[0] == "caught" for t in rb.trans.values() for e in t))
    ctx.label("probe", st_["ops"].get("probe", 0) > 0)
    ctx.label("explicit-asyncio_fn", st_["leaves"].get("afn", 0) > 0)
    ctx.label("exception-instance-as-value", st_["leaves"].get("excval", 0) > 0)
    ctx.label("proxy-used-with-several-arguments", st_["leaves"].get("pfn", 0) >= 2)
    ctx.label("async_call", st_["leaves"].get("acall", 0) > 0)
    ctx.label("plain-function-tail=" + str(tail))
    ctx.label("call-with-arguments-that-do-not-fit=" + str(bad))
    ctx.nontrivial(case, st_["tasks"] >= 2 and (st_["nested"] or any(e[0] == "caught" for t in rb.trans.values() for e in t)))
    return viol


def reduce_case(case):
    for p in reduce.candidates(case["prog"]):
        yield dict(case, prog=p)
    if case["entry"] != "function":
        yield dict(case, entry="function")
    if case.get("plain_tail"):
        yield dict(case, plain_tail=None)
    if case.get("bad_call"):
        yield dict(case, bad_call=None)


def sizes(tier):
    from ..e1 import wide
    return [{"wide": sp, "entry": e, "plain_tail": None} for sp in wide.specs(["tuple-consts-batchfree", "list-consts-batchfree"], True) for e in ("function", "method")]


def check_sizes(case, ctx):
    from ..e1 import wide
    out = check(dict(case, prog=wide.expand(case["wide"])), _Quiet(ctx, case))
    return [(s, "%r: %s" % (case["wide"], m[:500])) for s, m in out]


class _Quiet(object):
    def __init__(self, ctx, case):
        self.ctx = ctx
        self.case = case

    def label(self, *a, **k):
        pass

    def nontrivial(self, case, on=True):
        self.ctx.label("wide:" + self.case["wide"]["shape"])
        self.ctx.nontrivial(self.case)


SUBS = [Sub("batch-free-programs", check, strategy=strategy, reduce=reduce_case, examples={"quick": 3000, "thorough": 100000}),
        Sub("sizes", check_sizes, enumerate=sizes)]
