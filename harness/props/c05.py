"""C05 -- each batch is flushed once, highest priority first; every item is answered."""
from ..common import Sub
from ..e1 import engine, gen, oracles, reduce

RULE = ("programs over 2-3 batch kinds with arbitrary item counts, generated get_priority tables (overrides, ties, default = item count), flush bodies that "
        "succeed / set item errors / skip items / raise after a prefix / whose public flush() raises ('hard'), with and without nested synchronous calls; "
        "non-trivial = at some flush at least 2 batches of different kinds were candidates (yield-only), or a nested synchronous call flushed (re-entry); distinct = distinct program JSON")
ASSUMPTIONS = ["ties may resolve either way: only a strictly greater pending priority is a violation",
               "the candidate set at a flush is computed by the harness from the futures blocked tasks yielded, not from the scheduler's own batch set",
               "the priority clause is asserted only for yield-only programs, as the property states"]


def strat_yield(tier):
    return gen.programs(gen.Cfg(max_tasks=12 if tier == "quick" else 40, sync=False, ctx=("rec",), dag=True, flush_faults=("raise", "raise_base", "hard", "nested"), cancels=True,
                                shapes=("comb", "comb", "tree", "stagger", "stagger", "diamond", "free", "chain")))


def strat_sync(tier):
    return gen.programs(gen.Cfg(max_tasks=12 if tier == "quick" else 40, sync=True, ctx=("rec",), dag=False, flush_faults=("raise", "hard", "nested"), cancels=True, itemvalue=True,
                                convs=("call", "value", "wrapper"), shapes=("reentry", "reentry", "reentry", "free", "comb")))


def check(prog, ctx):
    env = oracles.first(prog)
    engine.event_grammar(env)
    engine.item_checks(env)
    viol = oracles.clauses(env, "C05.")
    # what the flush set is what the waiting task receives
    if not any(f[2] == "hard" for f in prog.get("faults") or []):
        r, exp = oracles.reference(prog, env)
        viol += oracles.compare_with_reference(env, r, exp, "C05.received")
    if not viol:
        env_b = oracles.again(prog, env)
        if env_b is not None:
            engine.event_grammar(env_b)
            engine.item_checks(env_b)
            viol += oracles.second(oracles.clauses(env_b, "C05."))
            ctx.label("run-twice-on-one-scheduler")
    nested = sum(1 for e in env.log if e[0] == "flush") > 0 and not env.yield_only
    ctx.label("candidates>=2-kinds", env.ncands >= 2)
    ctx.label("flush-fault-hit", any(isinstance(a, list) for a in env.item_action.values()))
    ctx.label("hard-flush-hit", env.outcome[0] == "exc" and env.outcome[1][:1] == ["hard"] or any(e and e[0] in ("caught", "syncexc") and isinstance(e[1], list) and e[1][:1] == ["hard"] for rec in env.recs.values() for e in rec.got))
    ctx.label("unset-item", any(a == "unset" for a in env.item_action.values()))
    ctx.label("pending-batch-cancelled", env.ncancelled > 0)
    ctx.label("flush-body-calls-asynq", len(env.probes) > 0)
    ctx.label("flushes>=3", len(env.flushes) >= 3)
    ctx.label("shape=" + prog.get("shape", "?"))
    ctx.nontrivial(prog, env.ncands >= 2 or (not env.yield_only and len(env.flushes) >= 2))
    return viol


SUBS = [Sub("yield-only", check, strategy=strat_yield, reduce=reduce.candidates, examples={"quick": 3000, "thorough": 200000}),
        Sub("with-sync-reentry", check, strategy=strat_sync, reduce=reduce.candidates, examples={"quick": 2000, "thorough": 150000})]
