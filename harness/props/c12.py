"""C12 -- deduplicate: one in-flight execution per key, shared by all callers."""
import collections

from hypothesis import strategies as st

from ..common import Sub
from ..e1 import engine

RULE = ("(timed) histories executed inside one computation on a round clock (one harness batch kind; a round = one flush): caller tasks wait w rounds, then "
        "call key k of a deduplicated callable (function / a second function with the same qualified name / method on a truthy or a falsy instance / static method) with a spelling (positional / keyword / explicit default) "
        "or call dirty(k); bodies last r(k) rounds and optionally fail. (toplevel) histories of t = f.asynq(k), t.value(), dirty(k) outside any task. "
        "Oracle: reference in-flight table. non-trivial = a second call arrives strictly between the first call's start and completion, or a call follows "
        "dirty() while the dirtied task is still in flight, or a call follows completion; distinct = distinct case JSON Three functions of one factory share one decorator object (two with equal, one with different defaults).")
ASSUMPTIONS = ["when a call and the completion of the in-flight task fall in the same round, depth-first order decides: the model accepts both outcomes there (counted as ties, never as non-trivial)",
               "calls from inside the running body are not generated (the property excludes them)"]


class Boom(Exception):
    pass


VARIANTS = ["fn", "twin", "other", "m1", "m2", "static"]
SPELL = ["pos", "kw", "pos+default", "kw+default", "pos+kwonly-default", "kw+all"]


# argument values of the two keys: distinct values whose hashes collide in CPython (hash(-1) == hash(-2) == -2)
KEYVAL = [-1, -2]


def make_targets(runs, dur, fails, item, reenter=(False, False), self_dirty=(False, False), inner_catch=(False, False)):
    from asynq import asynq as A
    from asynq.tools import deduplicate
    inside = {}
    holder = {}

    def body(tag, kv):
        k = KEYVAL.index(kv)
        runs[(tag, k)] += 1
        n = runs[(tag, k)]
        if inside.get((tag, k)):
            # the re-entrant run (a call from inside the running body gets a private task): returns at once
            return [tag, k, n]
        if self_dirty[k]:
            # the running body dirties its own key (documented use): later callers must get a new execution
            holder[tag].dirty(kv)
        if reenter[k]:
            # the body calls itself with the same key, as the documentation's escape hatch allows
            inside[(tag, k)] = True
            try:
                holder[tag].asynq(kv).value()
            finally:
                inside[(tag, k)] = False
        if inner_catch[k]:
            # the body handles a failed dependency and carries on (an exception is thrown into the generator, which then blocks again)
            from asynq.futures import ErrorFuture
            try:
                yield ErrorFuture(Boom(("inner", tag, k)))
            except Boom:
                pass
        for _ in range(dur[k]):
            yield item()
        if fails[k]:
            raise Boom((tag, k, n))
        return [tag, k, n]

    shared_decorator = deduplicate()      # one decorator object applied to several functions

    def factory(tag, dflt):
        # "fn" and "twin" are two functions with one name, module and qualified name, decorated by the same decorator
        # object; their defaults differ
        @shared_decorator
        @A()
        def fn(k, extra=dflt, *, fresh=False):
            return (yield from body(tag, k))
        return fn
    fn, twin, other = factory("fn", 7), factory("twin", 7), factory("other", 8)
    DEFAULTS.clear()
    DEFAULTS[id(other)] = (other, 8)

    class C(object):
        def __init__(self, name):
            self.name = name

        def __bool__(self):
            # instance 2 is falsy (an empty container-like object)
            return self.name != "m2"

        @deduplicate()
        @A()
        def m(self, k, extra=7, *, fresh=False):
            return (yield from body(self.name, k))

        @deduplicate()
        @A()
        @staticmethod
        def s(k, extra=7, *, fresh=False):
            return (yield from body("static", k))

    i1, i2 = C("m1"), C("m2")
    holder.update({"fn": fn, "twin": twin, "other": other, "m1": i1.m, "m2": i2.m, "static": C.s})
    return dict(holder), (i1, i2)


DEFAULTS = {}      # id(decorated callable) -> its default for ``extra`` (the table keeps the callable alive)


def dflt_of(target):
    return DEFAULTS.get(id(target), (None, 7))[1]


def call_async(target, k, spell):
    k = KEYVAL[k]
    D = dflt_of(target)
    if spell == "pos":
        return target.asynq(k)
    if spell == "kw":
        return target.asynq(k=k)
    if spell == "pos+default":
        return target.asynq(k, D)
    if spell == "pos+kwonly-default":
        return target.asynq(k, fresh=False)
    if spell == "kw+all":
        return target.asynq(fresh=False, extra=D, k=k)
    return target.asynq(k=k, extra=D)


def call_dirty(target, k, spell):
    k = KEYVAL[k]
    D = dflt_of(target)
    if spell == "pos":
        return target.dirty(k)
    if spell == "kw":
        return target.dirty(k=k)
    if spell == "pos+default":
        return target.dirty(k, D)
    if spell == "pos+kwonly-default":
        return target.dirty(k, fresh=False)
    if spell == "kw+all":
        return target.dirty(fresh=False, extra=D, k=k)
    return target.dirty(k=k, extra=D)


# ---------------------------------------------------------------------------------------------------

def strat_timed(tier):
    ev = st.tuples(st.integers(0, 6), st.sampled_from(["call", "call", "call", "dirty"]), st.sampled_from(["fn", "fn", "twin", "other", "m1", "m1", "m2", "m2", "static"]),
                   st.integers(0, 1), st.sampled_from(SPELL)).map(list)
    return st.fixed_dictionaries({"events": st.lists(ev, min_size=2, max_size=8 if tier == "quick" else 14),
                                  "dur": st.lists(st.sampled_from([1, 2, 2, 3, 4]), min_size=2, max_size=2),
                                  "fails": st.lists(st.sampled_from([False, False, True]), min_size=2, max_size=2),
                                  "reenter": st.lists(st.sampled_from([False, False, True]), min_size=2, max_size=2),
                                  "self_dirty": st.lists(st.sampled_from([False, False, False, True]), min_size=2, max_size=2),
                                  "inner_catch": st.lists(st.sampled_from([False, False, True]), min_size=2, max_size=2)})


def check_timed(case, ctx):
    from asynq import asynq as A
    engine.reset_process_state()
    env = engine.Env({"root": {"id": 0, "body": []}, "prio": {}})
    evs, dur, fails = case["events"], case["dur"], case["fails"]
    reenter = case.get("reenter", [False, False])
    self_dirty = case.get("self_dirty", [False, False])
    inner_catch = case.get("inner_catch", [False, False])
    runs = collections.Counter()
    uid = [0]

    def item():
        uid[0] += 1
        return engine.HItem(env, "a", 0, "ok", uid[0])
    targets, keepalive = make_targets(runs, dur, fails, item, reenter, self_dirty, inner_catch)
    obs = {}

    @A()
    def caller(i, t, kind, var, k, spell):
        for _ in range(t):
            yield item()
        now = len(env.flushes)
        if kind == "dirty":
            call_dirty(targets[var], k, spell)
            obs[i] = ["dirty", now]
            return
        task = call_async(targets[var], k, spell)
        rec = obs[i] = ["call", now, task, None]
        try:
            v = yield task
            rec[3] = ["ok", v]
        except Boom as e:
            rec[3] = ["exc", list(e.args[0])]

    @A()
    def root():
        yield [caller.asynq(i, *e) for i, e in enumerate(evs)]
    root()

    viol = []
    order = sorted(range(len(evs)), key=lambda i: (evs[i][0], i))
    inflight = {}
    objs = {}        # model task id -> observed task object
    info = {}        # model task id -> (key, run ordinal)
    mruns = collections.Counter()
    nt = [0]
    ties = 0
    classes = set()
    completed_keys = set()
    members = collections.defaultdict(list)

    def bad(clause, msg):
        viol.append(("C12." + clause, "events %r, body rounds %r, fails %r, body re-enters itself %r, body dirties its own key %r, body first catches a failed dependency %r: %s" % (evs, dur, fails, reenter, self_dirty, inner_catch, msg)))

    for i in order:
        t, kind, var, k, spell = evs[i]
        key = (var, k)
        if obs.get(i) is None or obs[i][1] != t:
            bad("harness", "caller %d acted in round %r, expected %d" % (i, obs.get(i), t))
            break
        ent = inflight.get(key)
        if ent is not None and ent["done"] < t:
            inflight.pop(key)
            completed_keys.add(key)
            ent = None
        if kind == "dirty":
            if ent is not None and ent["done"] > t:
                classes.add("dirty-while-in-flight:" + repr(key))
            inflight.pop(key, None)
            continue
        task = obs[i][2]
        known = [m for m, o in objs.items() if o is task]
        tie = ent is not None and ent["done"] == t
        if tie:
            ties += 1
        if ent is not None and not tie:
            if objs[ent["mid"]] is not task:
                bad("share", "call #%d (round %d) of %r while its task (created round %d, completes round %d) is in flight returned a different task" % (i, t, key, ent["created"], ent["done"]))
                break
            if ent["created"] < t:
                classes.add("second-call-strictly-inside")
            members[ent["mid"]].append(i)
        elif tie and objs[ent["mid"]] is task:
            members[ent["mid"]].append(i)
        else:
            if known:
                bad("fresh", "call #%d (round %d) of %r must run the body again (no live entry) but returned the task of an earlier call (%r)" % (i, t, key, info[known[0]]))
                break
            nt[0] += 1
            mid = nt[0]
            mruns[key] += 1
            objs[mid] = task
            info[mid] = (key, mruns[key])
            if reenter[k]:
                mruns[key] += 1        # the body's own re-entrant call runs the body once more (private task)
            inflight[key] = {"mid": mid, "created": t, "done": t + dur[k]}
            members[mid].append(i)
            if self_dirty[k]:
                # the body, which starts running as soon as its first caller has yielded it, dirties its own key:
                # the entry is gone before any later caller acts
                inflight.pop(key, None)
                classes.add("body-dirties-own-key")
            if key in completed_keys:
                classes.add("call-after-completion")
            if "dirty-while-in-flight:" + repr(key) in classes:
                classes.add("call-after-dirty")
    if not viol:
        for mid, idx in members.items():
            key, n = info[mid]
            exp = ["exc", [key[0], key[1], n]] if fails[key[1]] else ["ok", [key[0], key[1], n]]
            for i in idx:
                if obs[i][3] != exp:
                    bad("outcome", "caller #%d of %r (run %d) received %r, expected %r" % (i, key, n, obs[i][3], exp))
                    break
        for key in set(list(runs) + list(mruns)):
            if runs[key] != mruns[key] and not viol:
                bad("runs", "body of %r ran %d times, expected %d" % (key, runs[key], mruns[key]))
    nontriv = bool({"second-call-strictly-inside", "call-after-dirty", "call-after-completion"} & classes)
    for c in ("second-call-strictly-inside", "call-after-dirty", "call-after-completion"):
        ctx.label(c, c in classes)
    ctx.label("tie", ties > 0)
    ctx.label("body-dirties-own-key", "body-dirties-own-key" in classes)
    ctx.label("body-catches-failed-dependency-then-blocks", any(inner_catch[evs[i][3]] for i in order if evs[i][1] == "call"))
    ctx.label("falsy-instance", any(evs[i][2] == "m2" for i in order))
    ctx.label("same-named-functions", {"fn", "twin"} <= set(evs[i][2] for i in order))
    ctx.label("body-reenters-itself", any(reenter[evs[i][3]] for i in order if evs[i][1] == "call"))
    ctx.label("failing-body-shared", any(fails[info[m][0][1]] and len(ix) > 1 for m, ix in members.items()))
    ctx.nontrivial(case, nontriv)
    return viol


# ---------------------------------------------------------------------------------------------------

def strat_top(tier):
    op = st.one_of(
        st.tuples(st.just("call"), st.sampled_from(["fn", "fn", "twin", "other", "m1", "m2", "static"]), st.integers(0, 1), st.sampled_from(SPELL)).map(list),
        st.tuples(st.just("value"), st.integers(0, 7)).map(list),
        st.tuples(st.just("dirty"), st.sampled_from(["fn", "fn", "twin", "other", "m1", "m2", "static"]), st.integers(0, 1), st.sampled_from(SPELL)).map(list),
    )
    return st.fixed_dictionaries({"ops": st.lists(op, min_size=2, max_size=12 if tier == "quick" else 24),
                                  "fails": st.lists(st.sampled_from([False, False, True]), min_size=2, max_size=2)})


def check_top(case, ctx):
    engine.reset_process_state()
    env = engine.Env({"root": {"id": 0, "body": []}, "prio": {}})
    runs = collections.Counter()
    uid = [0]

    def item():
        uid[0] += 1
        return engine.HItem(env, "a", 0, "ok", uid[0])
    fails = case["fails"]
    targets, keepalive = make_targets(runs, [1, 2], fails, item)
    viol = []
    handles = []          # (task object, model id)
    inflight = {}         # key -> mid
    done = set()
    info = {}
    mruns = collections.Counter()
    classes = set()
    started = collections.Counter()

    def bad(clause, msg):
        viol.append(("C12." + clause, "after ops %r (fails %r): %s" % (case["ops"][:step + 1], fails, msg)))

    for step, op in enumerate(case["ops"]):
        if op[0] == "call":
            _, var, k, spell = op
            key = (var, k)
            task = call_async(targets[var], k, spell)
            mid = inflight.get(key)
            if mid is not None:
                if handles[mid][0] is not task:
                    bad("share", "call of %r while its task is created and not complete returned a different task" % (key,))
                classes.add("shared")
            else:
                if any(h[0] is task for h in handles):
                    bad("fresh", "call of %r with no live entry returned an earlier task" % (key,))
                mid = len(handles)
                handles.append((task, mid))
                inflight[key] = mid
                mruns[key] += 1
                info[mid] = (key, mruns[key])
                if mruns[key] > 1:
                    classes.add("rerun")
        elif op[0] == "value":
            if not handles:
                continue
            task, mid = handles[op[1] % len(handles)]
            key = info[mid][0]
            if mid not in done:
                # the body runs now, for the first time: its ordinal counts bodies of this key run so far
                started[key] += 1
                info[mid] = (key, started[key])
            n = info[mid][1]
            try:
                r = ["ok", task.value()]
            except Boom as e:
                r = ["exc", list(e.args[0])]
            exp = ["exc", [key[0], key[1], n]] if fails[key[1]] else ["ok", [key[0], key[1], n]]
            if r != exp:
                bad("outcome", "value() of the task of %r (run %d) gave %r, expected %r" % (key, n, r, exp))
            if mid not in done:
                done.add(mid)
                if inflight.get(key) == mid:
                    del inflight[key]
                elif key in inflight:
                    classes.add("completion-of-dirtied-task-while-successor-in-flight")
        else:
            _, var, k, spell = op
            key = (var, k)
            call_dirty(targets[var], k, spell)
            if key in inflight:
                classes.add("dirty-in-flight")
            inflight.pop(key, None)
        if viol:
            break
    if not viol:
        # bodies of tasks never waited for have not run
        exp_runs = collections.Counter(info[m][0] for m in done)
        for key in set(list(runs) + list(exp_runs)):
            if runs[key] != exp_runs[key]:
                step = len(case["ops"]) - 1
                bad("runs", "body of %r ran %d times, expected %d" % (key, runs[key], exp_runs[key]))
                break
    for c in ("shared", "rerun", "dirty-in-flight", "completion-of-dirtied-task-while-successor-in-flight"):
        ctx.label(c, c in classes)
    ctx.nontrivial(case, "shared" in classes and ("rerun" in classes or "dirty-in-flight" in classes))
    return viol


def reduce_timed(case):
    evs = case["events"]
    for i in range(len(evs)):
        yield dict(case, events=evs[:i] + evs[i + 1:])
    for i in range(len(evs)):
        if evs[i][0] > 0:
            e2 = [list(e) for e in evs]
            e2[i][0] -= 1
            yield dict(case, events=e2)
        if evs[i][4] != "pos":
            e2 = [list(e) for e in evs]
            e2[i][4] = "pos"
            yield dict(case, events=e2)
        if evs[i][2] != "fn":
            e2 = [list(e) for e in evs]
            for e in e2:
                e[2] = "fn"
            yield dict(case, events=e2)
    if any(case["fails"]):
        yield dict(case, fails=[False, False])
    if any(case.get("reenter", [])):
        yield dict(case, reenter=[False, False])
    if any(case.get("self_dirty", [])):
        yield dict(case, self_dirty=[False, False])
    if any(case.get("inner_catch", [])):
        yield dict(case, inner_catch=[False, False])


def reduce_top(case):
    ops = case["ops"]
    for i in range(len(ops)):
        yield dict(case, ops=ops[:i] + ops[i + 1:])
    if any(case["fails"]):
        yield dict(case, fails=[False, False])


SUBS = [Sub("timed", check_timed, strategy=strat_timed, reduce=reduce_timed, examples={"quick": 5000, "thorough": 200000}),
        Sub("toplevel", check_top, strategy=strat_top, reduce=reduce_top, examples={"quick": 5000, "thorough": 200000})]
