"""C04 -- batches are flushed only when nothing else can run (maximal batching)."""
from ..common import Sub
from ..e1 import engine, gen, oracles, reduce, sim

RULE = ("yield-only programs (no synchronous re-entry) with unequal depths so that requests become issuable in different rounds, DAG sharing, errors, "
        "try/except, contexts, 1-3 batch kinds and generated priority tables; non-trivial = at least 2 flushes and at least one task ran between two flushes; "
        "distinct = distinct program JSON")
ASSUMPTIONS = ["with several batch kinds the number of flushes is schedule-dependent, so only the per-flush invariant is asserted there; "
               "flush count and contents are compared with the round simulator for single-kind programs"]

BASE = dict(sync=False, ctx=("rec", "ov"), dag=True, orphans=True, shapes=("chain", "tree", "comb", "comb", "diamond", "stagger", "stagger", "free"))


def strat_multi(tier):
    return gen.programs(gen.Cfg(max_tasks=12 if tier == "quick" else 40, **BASE))


def strat_single(tier):
    return gen.programs(gen.Cfg(max_tasks=12 if tier == "quick" else 40, kinds=["a"], **BASE))


def _labels(prog, env, ctx):
    steps_between = False
    seen_flush = False
    for e in env.log:
        if e[0] == "flush":
            seen_flush = True
        elif e[0] == "step" and seen_flush:
            steps_between = True
    ctx.label("flushes>=2", len(env.flushes) >= 2)
    ctx.label("flushes>=4", len(env.flushes) >= 4)
    ctx.label("shape=" + prog.get("shape", "?"))
    ctx.label("has-ref", gen.stats(prog)["leaves"].get("ref", 0) > 0)
    ctx.nontrivial(prog, len(env.flushes) >= 2 and steps_between)


def check_multi(prog, ctx):
    env = engine.run_program(prog, check_c04=True)
    viol = oracles.clauses(env, "C04.")
    _labels(prog, env, ctx)
    return viol


def check_single(prog, ctx):
    env = engine.run_program(prog, check_c04=True)
    viol = oracles.clauses(env, "C04.")
    s = sim.Sim(prog)
    s.run()
    if s.deadlock:
        raise AssertionError("round simulator deadlocked on a generated program (harness defect)")
    real = [sorted(repr(a) for a in f[2]) for f in env.flushes]
    if len(real) != s.rounds:
        viol.append(("C04.count", "%d flushes; the longest chain of sequentially dependent requests is %d" % (len(real), s.rounds)))
    elif real != s.flushed:
        viol.append(("C04.contents", "flush contents %r; all requests issuable before each flush: %r" % (real, s.flushed)))
    _labels(prog, env, ctx)
    return viol


def sizes(tier):
    from ..e1 import wide
    return wide.specs(["fan-tasks", "list-items", "fan-one-fails"], tier == "quick")


def check_sizes(spec, ctx):
    from ..e1 import wide
    prog = wide.expand(spec)
    env = engine.run_program(prog, check_c04=True)
    viol = oracles.clauses(env, "C04.")
    s = sim.Sim(prog)
    s.run()
    real = [sorted(repr(a) for a in f[2]) for f in env.flushes]
    if len(real) != s.rounds:
        viol.append(("C04.count", "%d flushes; the longest chain of sequentially dependent requests is %d" % (len(real), s.rounds)))
    elif real != s.flushed:
        viol.append(("C04.contents", "flush sizes %r; all requests issuable before each flush: %r" % ([len(x) for x in real], [len(x) for x in s.flushed])))
    ctx.label("wide:" + spec["shape"])
    ctx.nontrivial(spec)
    return [(c, "%r: %s" % (spec, m[:600])) for c, m in viol]

SUBS = [Sub("invariant-multi-kind", check_multi, strategy=strat_multi, reduce=reduce.candidates, examples={"quick": 3000, "thorough": 200000}),
        Sub("single-kind-vs-simulator", check_single, strategy=strat_single, reduce=reduce.candidates, examples={"quick": 3000, "thorough": 200000}),
        Sub("sizes", check_sizes, enumerate=sizes)]
