"""C04 -- batches are flushed only when nothing else can run (maximal batching)."""
from ..common import Sub
from ..e1 import engine, gen, oracles, reduce, sim

RULE = ("yield-only programs (no synchronous re-entry) with unequal depths so that requests become issuable in different rounds, DAG sharing, errors, "
        "try/except, contexts, 1-3 batch kinds and generated priority tables; non-trivial = at least 2 flushes and at least one task ran between two flushes; "
        "distinct = distinct program JSON. (after-a-leftover-request) the same invariant for a program that starts while the scheduler still holds a request "
        "registered by an earlier computation (whose task failed while parked on it); non-trivial = a request was left and the program flushes The invariant campaign has failing flush bodies and deduplicated / cached / generator leaves; one campaign starts programs while a request of an earlier computation is still registered.")
ASSUMPTIONS = ["with several batch kinds the number of flushes is schedule-dependent, so only the per-flush invariant is asserted there; "
               "flush count and contents are compared with the round simulator for single-kind programs"]

BASE = dict(sync=False, ctx=("rec", "ov"), dag=True, orphans=True, shapes=("chain", "tree", "comb", "comb", "diamond", "stagger", "stagger", "free"))


def strat_multi(tier):
    # flush bodies may fail: the items of a failed flush are complete (with the error), so their waiters can run before the next flush
    return gen.programs(gen.Cfg(max_tasks=12 if tier == "quick" else 40, flush_faults=("raise",), catch_p=2, tools=("dd", "dd", "alru", "alru", "agen", "amap", "retry"), **BASE))


def strat_single(tier):
    return gen.programs(gen.Cfg(max_tasks=12 if tier == "quick" else 40, kinds=["a"], **BASE))


def _labels(prog, env, ctx):
    steps_between = False
    seen_flush = False
    for e in env.log:
        if e[0] == "flush":
            seen_flush = True
        elif e[0] == "step" and seen_flush:
            steps_between = True
    ctx.label("flushes>=2", len(env.flushes) >= 2)
    ctx.label("flushes>=4", len(env.flushes) >= 4)
    ctx.label("shape=" + prog.get("shape", "?"))
    ctx.label("has-ref", gen.stats(prog)["leaves"].get("ref", 0) > 0)
    ctx.nontrivial(prog, len(env.flushes) >= 2 and steps_between)


def check_multi(prog, ctx):
    env = oracles.first(prog, check_c04=True)
    viol = oracles.clauses(env, "C04.")
    if not viol:
        env_b = oracles.again(prog, env, check_c04=True)
        if env_b is not None:
            viol += oracles.second(oracles.clauses(env_b, "C04."))
            ctx.label("run-twice-on-one-scheduler")
    _labels(prog, env, ctx)
    return viol


def check_single(prog, ctx):
    env = oracles.first(prog, check_c04=True)
    viol = oracles.clauses(env, "C04.")
    s = sim.Sim(prog)
    s.run()
    if s.deadlock:
        raise AssertionError("round simulator deadlocked on a generated program (harness defect)")
    real = [sorted(repr(a) for a in f[2]) for f in env.flushes]
    if len(real) != s.rounds:
        viol.append(("C04.count", "%d flushes; the longest chain of sequentially dependent requests is %d" % (len(real), s.rounds)))
    elif real != s.flushed:
        viol.append(("C04.contents", "flush contents %r; all requests issuable before each flush: %r" % (real, s.flushed)))
    if not viol:
        env_b = oracles.again(prog, env, check_c04=True)
        if env_b is not None:
            v2 = oracles.clauses(env_b, "C04.")
            real_b = [sorted(repr(a) for a in f[2]) for f in env_b.flushes]
            if real_b != s.flushed:
                v2.append(("C04.contents", "flush contents %r; all requests issuable before each flush: %r" % (real_b, s.flushed)))
            viol += oracles.second(v2)
            ctx.label("run-twice-on-one-scheduler")
    _labels(prog, env, ctx)
    return viol


def strat_leftover(tier):
    from hypothesis import strategies as st
    return st.fixed_dictionaries({"kind": st.sampled_from(["a", "b"]), "how": st.sampled_from(["na", "pause-fails"]),
                                  "prog": gen.programs(gen.Cfg(max_tasks=8 if tier == "quick" else 24, kinds=["a", "b"], **BASE))})


def leftover_program(kind, how):
    """a computation that ends normally while a request of ``kind`` is still registered with the scheduler: a task parks on
    the request inside a context that refuses to be paused, fails, and its parent handles the failure"""
    ctx = ["na", 0] if how == "na" else ["fail", 0, None, 1]
    child = {"id": 1, "via": "return", "body": [{"op": "with", "ctx": ctx, "body": [{"op": "yield", "y": ["item", kind, 0, "ok", 0], "catch": False}]}]}
    root = {"id": 0, "via": "return", "body": [{"op": "yield", "y": ["task", child], "catch": True}]}
    return {"root": root, "shape": "leftover", "prio": {}, "faults": [], "conv": "value", "nsv": 2}


def check_leftover(case, ctx):
    """the same invariant for a computation that starts while the scheduler still holds a request of an earlier one"""
    from asynq import scheduler
    first = engine.run_program(leftover_program(case["kind"], case["how"]))
    left = len(scheduler.get_scheduler()._batches) if hasattr(scheduler.get_scheduler(), "_batches") else None
    env = engine.run_program(case["prog"], check_c04=True, reset=False)
    viol = oracles.clauses(env, "C04.")
    foreign = any(e[0] == "before" and e[1] == "foreign" for e in env.events)
    ctx.label("first-computation-outcome=" + first.outcome[0])
    ctx.label("request-left-registered", bool(left))
    ctx.label("leftover-request-flushed-during-the-next-computation", foreign)
    ctx.nontrivial(case, bool(left) and len(env.flushes) >= 1)
    return viol


def sizes(tier):
    from ..e1 import wide
    return wide.specs(["fan-tasks", "list-items", "fan-one-fails"], tier == "quick")


def check_sizes(spec, ctx):
    from ..e1 import wide
    prog = wide.expand(spec)
    env = engine.run_program(prog, check_c04=True)
    viol = oracles.clauses(env, "C04.")
    s = sim.Sim(prog)
    s.run()
    real = [sorted(repr(a) for a in f[2]) for f in env.flushes]
    if len(real) != s.rounds:
        viol.append(("C04.count", "%d flushes; the longest chain of sequentially dependent requests is %d" % (len(real), s.rounds)))
    elif real != s.flushed:
        viol.append(("C04.contents", "flush sizes %r; all requests issuable before each flush: %r" % ([len(x) for x in real], [len(x) for x in s.flushed])))
    ctx.label("wide:" + spec["shape"])
    ctx.nontrivial(spec)
    return [(c, "%r: %s" % (spec, m[:600])) for c, m in viol]

SUBS = [Sub("invariant-multi-kind", check_multi, strategy=strat_multi, reduce=reduce.candidates, examples={"quick": 3000, "thorough": 200000}),
        Sub("single-kind-vs-simulator", check_single, strategy=strat_single, reduce=reduce.candidates, examples={"quick": 3000, "thorough": 200000}),
        Sub("after-a-leftover-request", check_leftover, strategy=strat_leftover, examples={"quick": 1500, "thorough": 60000}),
        Sub("sizes", check_sizes, enumerate=sizes)]
