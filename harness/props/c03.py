"""C03 -- a task resumes exactly once per yield, only when all it awaits is done; termination."""
from ..common import Sub
from ..e1 import engine, gen, oracles, reduce

RULE = ("(programs / with-sync-reentry) yield-only programs, and programs whose tasks also call synchronously into asynq (re-entry comb), with tasks awaited by several parents, already-computed futures yielded again, orphans (created, never yielded), empty "
        "structures, failures; non-trivial = (a shared/re-yielded future, or a yield of >= 3 sibling tasks of unequal length) and >= 2 flushes. "
        "(deep-chain) chains of d awaiting tasks, d up to 1 500 (quick) / 100 000 (thorough), far beyond the recursion limit; every case is non-trivial. "
        "distinct = distinct case JSON. Library tools occur as leaves; deep chains also continue through a tool at every level.")
ASSUMPTIONS = ["start order is asserted only for tasks first scheduled by a yield in list/tuple positions (dict values are not constrained by the property)",
               "liveness is a bounded check: a worker making no progress for VERIF_STALL_S seconds is killed and the case re-run alone before a hang is reported"]


def strategy(tier):
    return gen.programs(gen.Cfg(max_tasks=14 if tier == "quick" else 40, sync=False, ctx=(), dag=True, orphans=True, premade=True, tools=("dd", "alru", "agen", "amap", "asorted", "amin", "amax", "afilter", "retry", "cwc"), 
                                shapes=("chain", "tree", "comb", "comb", "diamond", "diamond", "stagger", "free", "free")))


def strategy_sync(tier):
    return gen.programs(gen.Cfg(max_tasks=12 if tier == "quick" else 30, sync=True, ctx=(), dag=True, reyield=True, convs=("call", "value", "wrapper"),
                                shapes=("reentry", "reentry", "reentry", "comb", "free", "free", "diamond")))


def unequal_siblings(prog):
    for t in engine.all_tasks(prog["root"]):
        for st in engine.walk_stmts(t["body"]):
            if st["op"] == "yield":
                kids = [leaf[1] for leaf in engine.walk_struct(st["y"]) if leaf[0] == "task"]
                if len(kids) >= 3 and len(set(sum(1 for x in engine.walk_stmts(k["body"]) if x["op"] == "yield") for k in kids)) >= 2:
                    return True
    return False


def check(prog, ctx):
    env = engine.run_program(prog)
    viol = oracles.clauses(env, "C03.")
    r, exp = oracles.reference(prog, env)
    if env.outcome[0] == "escaped":
        viol.append(("C03.terminate", "value() neither returned nor raised a task failure: %r" % (env.outcome,)))
    for tid in r.trans:
        rec = env.recs.get(tid)
        if rec is None or rec.handle is None or not rec.handle.is_computed():
            viol.append(("C03.terminate", "value() returned although task %r, which the computation transitively awaits, is not computed" % (tid,)))
            break
    for tid, rec in env.recs.items():
        if rec.started and rec.handle.is_computed() and rec.resumes != rec.yields:
            viol.append(("C03.once", "task %r completed with %d resumes for %d yields" % (tid, rec.resumes, rec.yields)))
            break
        if rec.started and tid not in r.trans:
            viol.append(("C03.orphan", "task %r ran although the computation never awaits it" % (tid,)))
            break
    st = gen.stats(prog)
    shared = st["leaves"].get("ref", 0) > 0
    uneq = unequal_siblings(prog)
    ctx.label("shared-or-reyielded", shared)
    ctx.label("unequal-siblings>=3", uneq)
    ctx.label("orphan", any(rec.how == "mk" and not rec.yielded for rec in env.recs.values()))
    ctx.label("flushes>=2", len(env.flushes) >= 2)
    ctx.label("shape=" + prog.get("shape", "?"))
    ctx.label("sync-reentry", not env.yield_only)
    ctx.nontrivial(prog, (shared or uneq or not env.yield_only) and len(env.flushes) >= 2)
    return viol


# ---- deep chains -----------------------------------------------------------------------------------

def deep_cases(tier):
    depths = [50, 200, 999, 1001, 1500] if tier == "quick" else [2000, 5000, 20000, 50000, 100000]
    out = []
    for d in depths:
        for pattern in ("child", "item-child", "child-item", "tuple", "list-const"):
            # a chain in which every level needs a flush of its own costs depth^2 scheduler steps (each pass walks
            # the chain from the root): those patterns stop at 5 000 levels, the flush-free ones go to 100 000
            if pattern in ("item-child", "child-item") and d > 5000:
                continue
            out.append({"depth": d, "pattern": pattern})
        # the chain continues through a library tool at every level
        for pattern in TOOL_PATTERNS:
            if d <= 20000:
                out.append({"depth": d, "pattern": pattern})
    return out


TOOL_PATTERNS = ("via-amap", "via-afilter", "via-amin", "via-amax", "via-asorted", "via-agen", "via-agen-second-await", "via-dedupe", "via-alru", "via-aretry", "via-call_with_context")


def check_deep(case, ctx):
    from asynq import asynq as A, ConstFuture, scheduler, async_generator, Value, list_of_generator, AsyncContext
    from asynq import tools as T
    engine.reset_process_state()
    d = case["depth"]
    pattern = case["pattern"]
    env = engine.Env({"root": {"id": 0, "body": []}, "prio": {}})
    viol = []
    stats = {"steps": 0, "resumes": 0, "uncomputed": 0, "active": 0}

    @A()
    def level(n):
        me = scheduler.get_active_task()
        stats["steps"] += 1
        if n == 0:
            it = engine.HItem(env, "a", 0, "ok", 0)
            v = yield it
            stats["resumes"] += 1
            if not it.is_computed():
                stats["uncomputed"] += 1
            return 1
        extra = 0
        if pattern == "item-child":
            it = engine.HItem(env, "a", n, "ok", n)
            yield it
            stats["resumes"] += 1
            if not it.is_computed():
                stats["uncomputed"] += 1
        if pattern.startswith("via-"):
            v = yield via(n - 1)
            stats["resumes"] += 1
            if scheduler.get_active_task() is not me:
                stats["active"] += 1
            return v + 1
        child = level.asynq(n - 1)
        if pattern == "tuple":
            (v,) = yield (child,)
        elif pattern == "list-const":
            v, extra = yield [child, ConstFuture(0)]
        else:
            v = yield child
        stats["resumes"] += 1
        if not child.is_computed():
            stats["uncomputed"] += 1
        if scheduler.get_active_task() is not me:
            stats["active"] += 1
        if pattern == "child-item":
            it = engine.HItem(env, "a", n, "ok", n)
            yield it
            stats["resumes"] += 1
            if not it.is_computed():
                stats["uncomputed"] += 1
        return v + 1 + extra

    @async_generator()
    def gen(m, second):
        if second:
            yield ConstFuture(0)
        v = yield level.asynq(m)
        yield Value(v)

    @T.deduplicate()
    @A()
    def dd_level(m):
        return (yield level.asynq(m))

    @T.alru_cache(maxsize=4)
    @A()
    def alru_level(m):
        return (yield level.asynq(m))

    @T.aretry(KeyError, max_tries=2)
    @A()
    def retry_level(m):
        return (yield level.asynq(m))

    class Quiet(AsyncContext):
        def resume(self):
            pass

        def pause(self):
            pass

    @A()
    def unwrap_first(fut, expect=None):
        r = yield fut
        if expect is not None:
            if r != expect:
                raise AssertionError("a collection helper returned %r, expected %r" % (r, expect))
            return expect[0] + 1 if isinstance(expect, list) else expect + 1
        return r[0]

    @A()
    def truthy(m):
        return (yield level.asynq(m)) > 0

    def via(m):
        """the future through which level(m + 1) awaits level(m)"""
        if pattern == "via-amap":
            return unwrap_first.asynq(T.amap.asynq(level, [m]))
        if pattern == "via-afilter":
            return unwrap_first.asynq(T.afilter.asynq(truthy, [m]), [m])
        if pattern in ("via-amin", "via-amax"):
            return unwrap_first.asynq((T.amin if pattern == "via-amin" else T.amax).asynq([m], key=level), m)
        if pattern == "via-asorted":
            return unwrap_first.asynq(T.asorted.asynq([m], key=level), [m])
        if pattern in ("via-agen", "via-agen-second-await"):
            return unwrap_first.asynq(list_of_generator.asynq(gen(m, pattern.endswith("second-await"))))
        if pattern == "via-dedupe":
            return dd_level.asynq(m)
        if pattern == "via-alru":
            return alru_level.asynq(m)
        if pattern == "via-aretry":
            return retry_level.asynq(m)
        return T.call_with_context.asynq(Quiet(), level, m)

    try:
        got = level(d)
    except BaseException as e:
        viol.append(("C03.terminate", "chain of %d awaiting tasks: %s: %s" % (d, type(e).__name__, str(e)[:200])))
        got = None
    if got is not None and got != d + 1:
        viol.append(("C03.terminate", "chain of %d awaiting tasks returned %r, expected %r" % (d, got, d + 1)))
    per_level = {"child": 1, "tuple": 1, "list-const": 1, "item-child": 2, "child-item": 2}.get(pattern, 1)
    expect_resumes = 1 + d * per_level
    if not viol and stats["resumes"] != expect_resumes:
        viol.append(("C03.once", "chain of %d: %d resumes, expected %d" % (d, stats["resumes"], expect_resumes)))
    if stats["uncomputed"]:
        viol.append(("C03.uncomputed", "chain of %d: %d resumes with an uncomputed future" % (d, stats["uncomputed"])))
    if not viol and stats["steps"] != d + 1:
        viol.append(("C03.once", "chain of %d: %d task starts" % (d, stats["steps"])))
    ctx.label("depth>1000", d > 1000)
    ctx.label("pattern=" + pattern)
    ctx.nontrivial(case)
    return viol


def sizes(tier):
    from ..e1 import wide
    return wide.specs(["fan-tasks", "list-items", "fan-one-fails", "fan-sync-first"], tier == "quick")


def check_sizes(spec, ctx):
    from ..e1 import wide
    prog = wide.expand(spec)
    return [(s, "%r: %s" % (spec, m[:600])) for s, m in check(prog, _Quiet(ctx, spec))]


class _Quiet(object):
    """labels of the generic check are not meaningful for the enumerated sizes"""

    def __init__(self, ctx, spec):
        self.ctx = ctx
        self.spec = spec

    def label(self, *a, **k):
        pass

    def nontrivial(self, case, on=True):
        self.ctx.label("wide:" + self.spec["shape"])
        self.ctx.nontrivial(self.spec)

SUBS = [Sub("programs", check, strategy=strategy, reduce=reduce.candidates, examples={"quick": 6000, "thorough": 300000}),
        Sub("with-sync-reentry", check, strategy=strategy_sync, reduce=reduce.candidates, examples={"quick": 4000, "thorough": 150000}),
        Sub("deep-chain", check_deep, enumerate=deep_cases),
        Sub("sizes", check_sizes, enumerate=sizes)]
