"""Capture of asynq's diagnostics.

asynq binds ``stdout``/``stderr`` at import time in ``asynq.debug`` and ``asynq.scheduler``
(``from sys import stderr, stdout``), so redirect_stdout does not catch them; the module
attributes are looked up by name at call time in both builds and can be replaced.
"""
import io
import sys

buf = io.StringIO()


def install():
    import asynq.debug
    import asynq.scheduler
    asynq.debug.stdout = buf
    asynq.debug.stderr = buf
    asynq.scheduler.stdout = buf
    asynq.scheduler.stderr = buf
    # highlighting is irrelevant to every property and slow
    asynq.debug.enable_traceback_syntax_highlight(False)


def clear():
    buf.seek(0)
    buf.truncate()


def text():
    return buf.getvalue()


class capture_print(object):
    """Also catch plain print()-based paths (dump_stack, on_computed callback report)."""

    def __enter__(self):
        self.o, self.e = sys.stdout, sys.stderr
        sys.stdout = buf
        sys.stderr = buf
        return self

    def __exit__(self, *a):
        sys.stdout, sys.stderr = self.o, self.e
        return False
