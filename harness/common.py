"""Worker-side plumbing shared by every property: counters, heartbeat, violation records,
the Hypothesis campaign driver (collect-then-shrink by signature) and exhaustive enumerations.

A property module (harness/props/cXX.py) exposes

    RULE  : str                         what counts as a non-trivial case
    SUBS  : [Sub, ...]                  independent campaigns; all must pass
    setup(ctx) (optional)

and each Sub has a generator (Hypothesis strategy or finite enumeration) and
``check(case, ctx) -> [(signature, message), ...]`` -- the executable oracle.  ``case`` is a
JSON-serialisable document; it *is* the replay format.
"""
import hashlib
import json
import os
import sys
import time
import traceback


def canon(x):
    """tuples -> lists, recursively; dict keys to str; everything else through repr if not JSON."""
    if isinstance(x, (list, tuple)):
        return [canon(i) for i in x]
    if isinstance(x, dict):
        return {str(k): canon(v) for k, v in x.items()}
    if x is None or isinstance(x, (bool, int, float, str)):
        return x
    return repr(x)


def shape(x):
    """Shape-preserving JSON form of a value that came back from asynq: tuples are marked."""
    if isinstance(x, tuple):
        return {"$t": [shape(i) for i in x]}
    if isinstance(x, list):
        return [shape(i) for i in x]
    if isinstance(x, dict):
        return {str(k): shape(v) for k, v in x.items()}
    if x is None or isinstance(x, (bool, int, float, str)):
        return x
    return {"$obj": repr(x)}


def digest(x):
    return hashlib.sha1(json.dumps(x, sort_keys=True).encode()).hexdigest()[:12]


def jhash(case):
    return hashlib.sha1(json.dumps(canon(case), sort_keys=True).encode()).hexdigest()[:16]


def derive_seed(*parts):
    h = hashlib.sha256("/".join(str(p) for p in parts).encode()).digest()
    return int.from_bytes(h[:4], "big")


class Sub(object):
    def __init__(self, name, check, strategy=None, enumerate=None, examples=None, replay_only=False, reduce=None):
        self.name = name
        self.check = check
        self.strategy = strategy      # callable(tier) -> hypothesis strategy
        self.enumerate = enumerate    # callable(tier) -> iterable of cases
        self.examples = examples or {"quick": 300, "thorough": 5000}
        self.replay_only = replay_only
        self.reduce = reduce          # callable(case) -> iterable of smaller candidate cases


class Ctx(object):
    MAX_SIG_ROUNDS = 4

    def __init__(self, prop, build, shard, nshards, tier, seed, hb_path=None):
        self.prop = prop
        self.build = build
        self.shard = shard
        self.nshards = nshards
        self.tier = tier
        self.seed = seed
        self.hb = open(hb_path, "w") if hb_path else None
        self.evaluations = 0
        self.classes = {}
        self.nontrivial_hashes = set()
        self.samples = []
        self.violations = []      # dicts: sub, sig, msg, case, build
        self.excluded_known = 0
        self.sub_stats = {}
        self.cur_sub = None
        self.notes = []
        self.t0 = time.time()

    # ---- per-case bookkeeping -------------------------------------------------
    def begin(self, case):
        self.evaluations += 1
        st = self.sub_stats.setdefault(self.cur_sub, {"evaluations": 0, "nontrivial": 0})
        st["evaluations"] += 1
        if self.hb is not None:
            self.hb.seek(0)
            self.hb.write(json.dumps({"sub": self.cur_sub, "n": self.evaluations, "case": canon(case)}))
            self.hb.truncate()
            self.hb.flush()

    def label(self, name, on=True):
        if on:
            key = "%s:%s" % (self.cur_sub, name)
            self.classes[key] = self.classes.get(key, 0) + 1

    def nontrivial(self, case, on=True):
        if not on:
            return
        h = jhash(case)
        if h not in self.nontrivial_hashes:
            self.nontrivial_hashes.add(h)
            st = self.sub_stats.setdefault(self.cur_sub, {"evaluations": 0, "nontrivial": 0})
            st["nontrivial"] += 1
            # keep a few samples per sub-campaign, spread over the run
            mine = [s for s in self.samples if s["sub"] == self.cur_sub]
            if len(mine) < 2 or (len(mine) < 4 and st["nontrivial"] in (50, 500)):
                self.samples.append({"sub": self.cur_sub, "build": self.build, "case": canon(case)})

    def result(self):
        return {
            "prop": self.prop, "build": self.build, "shard": self.shard, "tier": self.tier, "seed": self.seed,
            "evaluations": self.evaluations, "classes": self.classes,
            "nontrivial_hashes": sorted(self.nontrivial_hashes), "samples": self.samples,
            "violations": self.violations, "excluded_known": self.excluded_known,
            "sub_stats": self.sub_stats, "notes": self.notes, "wall_s": round(time.time() - self.t0, 2),
        }


def raised_in_asynq(e):
    """'file:line in function' if the exception was raised by asynq code called (directly or not) from the
    harness's last frame, else None"""
    tb = traceback.extract_tb(e.__traceback__)
    last_harness = -1
    for i, fr in enumerate(tb):
        if "/harness/" in fr.filename:
            last_harness = i
    for fr in reversed(tb[last_harness + 1:]):
        f = fr.filename.replace("\\", "/")
        if "/asynq/" in f or f.startswith("asynq/"):
            return "%s:%s in %s" % (f.split("/asynq/")[-1] if "/asynq/" in f else f, fr.lineno, fr.name)
    return None


def safe_text(e):
    """str(e) of an exception raised by the code under test may itself raise (its message may render a broken object)"""
    try:
        return str(e)
    except BaseException as e2:
        return "<str() of this exception raised %s>" % type(e2).__name__


def safe_check(sub, case, ctx):
    try:
        viol = sub.check(case, ctx)
    except Exception as e:
        where = raised_in_asynq(e)
        if where is None:
            raise              # a defect of the harness itself: exit 2, never a VIOLATION
        viol = [("%s.unexpected:%s" % (ctx.prop, type(e).__name__), "asynq raised %s: %s at %s, which the property's oracle does not allow here" % (type(e).__name__, safe_text(e)[:200], where))]
    return [(s, m) for (s, m) in viol]


class _Found(Exception):
    pass


def run_sub(ctx, sub, regress_cases=()):
    """Runs one sub-campaign for this shard."""
    ctx.cur_sub = sub.name
    seen = set()

    def evaluate(case):
        ctx.begin(case)
        return safe_check(sub, case, ctx)

    # 1. regression inputs (bypass Hypothesis)
    for case in regress_cases:
        viol = evaluate(case)
        ctx.label("regress-replay")
        for sig, msg in viol:
            if sig not in seen:
                seen.add(sig)
                ctx.violations.append({"sub": sub.name, "sig": sig, "msg": msg, "case": canon(case), "build": ctx.build, "from": "regress"})
    if sub.replay_only:
        return

    n = sub.examples.get(ctx.tier, sub.examples["quick"])
    scale = float(os.environ.get("VERIF_SCALE", "1"))
    n = max(1, int(n * scale))

    # 2a. finite enumeration, sharded
    if sub.enumerate is not None:
        for i, case in enumerate(sub.enumerate(ctx.tier)):
            if i % ctx.nshards != ctx.shard:
                continue
            viol = evaluate(case)
            for sig, msg in viol:
                if sig not in seen:
                    seen.add(sig)
                    ctx.violations.append({"sub": sub.name, "sig": sig, "msg": msg, "case": canon(case), "build": ctx.build, "from": "enumeration"})
                else:
                    ctx.excluded_known += 1
        return

    # 2b. Hypothesis campaign; after a failure has been shrunk its signature is recorded and the
    #     campaign continues with that signature muted, so one shallow defect does not hide the next
    from hypothesis import given, settings, seed, HealthCheck, Phase
    import hypothesis

    per_shard = max(1, n // ctx.nshards)
    strategy = sub.strategy(ctx.tier)
    for rnd in range(Ctx.MAX_SIG_ROUNDS + 1):
        box = {}

        def body(case):
            viol = evaluate(case)
            new = [(s, m) for (s, m) in viol if s not in seen]
            if viol and not new:
                ctx.excluded_known += 1
            if new:
                box["case"] = case
                box["viol"] = new
                raise _Found(new[0][0])

        test = given(strategy)(body)
        test = settings(max_examples=per_shard if rnd == 0 else max(50, per_shard // 2), deadline=None, database=None,
                        report_multiple_bugs=False, derandomize=False, suppress_health_check=list(HealthCheck),
                        phases=[Phase.generate, Phase.shrink], print_blob=False)(test)
        test = seed(derive_seed(ctx.seed, ctx.prop, ctx.build, ctx.shard, sub.name, rnd))(test)
        try:
            test()
        except _Found:
            # the last failing execution is the shrunk one
            case, viol = box["case"], box["viol"]
            sig0 = viol[0][0]
            if sub.reduce is not None:
                case, viol = greedy_reduce(ctx, sub, case, viol, sig0)
            # Hypothesis shrinks towards *any* failure; record every signature of the final case
            for sig, msg in viol:
                if sig not in seen:
                    seen.add(sig)
                    ctx.violations.append({"sub": sub.name, "sig": sig, "msg": msg, "case": canon(case), "build": ctx.build, "from": "hypothesis"})
            continue
        except (hypothesis.errors.Flaky, hypothesis.errors.FlakyFailure) as e:
            # the failure did not reproduce on re-execution: it depends on something outside the
            # generated case (in asynq: the set-iteration tie-break between equal-priority batches).
            # The recorded failing execution is still a real one: report it unshrunk.
            if "case" not in box:
                raise
            for sig, msg in box["viol"]:
                if sig not in seen:
                    seen.add(sig)
                    ctx.violations.append({"sub": sub.name, "sig": sig, "msg": msg + "   [did not reproduce on immediate re-execution: schedule-dependent]", "case": canon(box["case"]), "build": ctx.build, "from": "hypothesis-flaky"})
            ctx.notes.append("a failing execution of %s did not reproduce (tie-break dependent)" % sub.name)
            continue
        break


def greedy_reduce(ctx, sub, case, viol, sig, budget=3000):
    """keep any strictly smaller candidate that still violates the same clause"""
    import copy
    spent = 0
    progress = True
    while progress and spent < budget:
        progress = False
        for cand in sub.reduce(case):
            spent += 1
            if spent >= budget:
                break
            try:
                ctx.begin(cand)
                v2 = safe_check(sub, cand, ctx)
            except Exception:
                continue      # not a well-formed program any more
            if any(s == sig for s, m in v2):
                case, viol = cand, [(s, m) for s, m in v2]
                progress = True
                break
    return case, viol


def regress_inputs(prop, sub_name):
    """Committed regression inputs for (property, sub)."""
    here = os.path.dirname(os.path.dirname(os.path.abspath(__file__)))
    d = os.path.join(here, "replays", "regress", prop)
    out = []
    if os.path.isdir(d):
        for f in sorted(os.listdir(d)):
            if f.endswith(".json"):
                doc = json.load(open(os.path.join(d, f)))
                if doc.get("sub") == sub_name:
                    out.append(doc["case"])
    return out
