"""Scratch builds of /repo's *working tree*: `py` (sources only) and `cy` (Cython extensions).

/repo itself contains stale, git-ignored extension modules and /venv imports the package
editable from there, so nothing here ever imports asynq from /repo.  The directory produced
is a cache keyed by a digest of the sources: a missing or partial one is rebuilt, directories
of other digests are removed, nothing registered in MANIFEST.json needs it to survive.
"""
import fcntl
import glob
import hashlib
import json
import os
import shutil
import subprocess
import sys
import time

REPO = os.environ.get("VERIF_REPO", "/repo")
PY = os.environ.get("VERIF_PYTHON", "/venv/bin/python")


def scratch_root():
    base = os.environ.get("VERIF_SCRATCH") or os.environ.get("TMPDIR") or "/tmp"
    return os.path.join(base, "asynq-verif")


def source_files():
    files = sorted(glob.glob(os.path.join(REPO, "asynq", "*.py")) + glob.glob(os.path.join(REPO, "asynq", "*.pxd")) + glob.glob(os.path.join(REPO, "asynq", "*.pyi")) + glob.glob(os.path.join(REPO, "asynq", "py.typed")))
    return files


def digest():
    h = hashlib.sha256()
    for f in source_files() + [os.path.join(REPO, "setup.py")]:
        h.update(os.path.relpath(f, REPO).encode() + b"\0")
        with open(f, "rb") as fh:
            h.update(fh.read())
        h.update(b"\0")
    return h.hexdigest()[:20]


def _copy_sources(dst):
    os.makedirs(os.path.join(dst, "asynq"), exist_ok=True)
    for f in source_files():
        shutil.copy2(f, os.path.join(dst, "asynq", os.path.basename(f)))


def _build_py(root):
    d = os.path.join(root, "py")
    _copy_sources(d)
    return d


def _build_cy(root):
    d = os.path.join(root, "cy")
    _copy_sources(d)
    shutil.copy2(os.path.join(REPO, "setup.py"), os.path.join(d, "setup.py"))
    shutil.copy2(os.path.join(REPO, "README.rst"), os.path.join(d, "README.rst"))
    os.makedirs(os.path.join(d, "asynq", "tests"), exist_ok=True)
    open(os.path.join(d, "asynq", "tests", "__init__.py"), "w").close()
    env = dict(os.environ)
    env.pop("PYTHONPATH", None)
    p = subprocess.run([PY, "setup.py", "-q", "build_ext", "--inplace", "-j", "16"], cwd=d, env=env, stdout=subprocess.PIPE, stderr=subprocess.STDOUT, text=True)
    log = p.stdout[-4000:]
    # remove build by-products at once (disk is limited)
    shutil.rmtree(os.path.join(d, "build"), ignore_errors=True)
    shutil.rmtree(os.path.join(d, "asynq", "tests"), ignore_errors=True)
    for f in glob.glob(os.path.join(d, "asynq", "*.c")) + glob.glob(os.path.join(d, "asynq", "*.h")):
        os.remove(f)
    for e in glob.glob(os.path.join(d, "*.egg-info")):
        shutil.rmtree(e, ignore_errors=True)
    ok = p.returncode == 0 and len(glob.glob(os.path.join(d, "asynq", "*.so"))) >= 11
    return d, ok, log


def ensure():
    """Returns {"py": dir, "cy": dir or None, "cy_error": str or None, "digest": ...}."""
    base = scratch_root()
    os.makedirs(base, exist_ok=True)
    dg = digest()
    root = os.path.join(base, dg)
    lock = open(os.path.join(base, ".lock"), "w")
    fcntl.flock(lock, fcntl.LOCK_EX)
    try:
        marker = os.path.join(root, "BUILD.json")
        if os.path.exists(marker):
            try:
                info = json.load(open(marker))
                if os.path.isdir(info["py"]) and (info["cy"] is None or os.path.isdir(info["cy"])):
                    return info
            except Exception:
                pass
        # drop every other digest (and a partial one of ours)
        for other in os.listdir(base):
            p = os.path.join(base, other)
            if os.path.isdir(p):
                shutil.rmtree(p, ignore_errors=True)
        os.makedirs(root)
        t0 = time.time()
        py = _build_py(root)
        if os.environ.get("VERIF_SKIP_CY"):      # development aid (mutation screening); never set by registered commands
            cy, ok, log = None, False, "skipped (VERIF_SKIP_CY)"
        else:
            cy, ok, log = _build_cy(root)
        info = {"digest": dg, "py": py, "cy": cy if ok else None, "cy_error": None if ok else log, "build_s": round(time.time() - t0, 1)}
        if not ok and cy:
            shutil.rmtree(cy, ignore_errors=True)
        with open(marker, "w") as fh:
            json.dump(info, fh)
        return info
    finally:
        fcntl.flock(lock, fcntl.LOCK_UN)
        lock.close()


if __name__ == "__main__":
    info = ensure()
    print(json.dumps({k: v for k, v in info.items() if k != "cy_error"}))
    if info["cy_error"]:
        print("cython build failed:\n" + info["cy_error"], file=sys.stderr)
