"""Worker process: imports asynq from one scratch build and runs one property's campaigns.

    python -m harness.worker C01 --builddir DIR --build py --shard 0/2 --tier quick --seed 1 --out FILE --hb FILE
    python -m harness.worker C01 --builddir DIR --build py --replay FILE --out FILE

Exit status: 0 = ran (violations, if any, are in the JSON), 2 = harness error.
"""
import argparse
import importlib
import io
import json
import os
import sys
import traceback
import warnings


def _line_coverage(builddir, covdir, prop):
    """development aid (tools/coverage.sh): which lines of the pure-Python build does a check execute?
    sys.monitoring LINE events, each location disabled after its first hit (negligible overhead)"""
    import atexit
    mon = sys.monitoring
    seen = set()
    prefix = os.path.join(builddir, "asynq") + os.sep

    def on_line(code, lineno):
        if code.co_filename.startswith(prefix):
            seen.add((code.co_filename[len(prefix):], lineno))
        return mon.DISABLE
    mon.use_tool_id(mon.COVERAGE_ID, "verif")
    mon.register_callback(mon.COVERAGE_ID, mon.events.LINE, on_line)
    mon.set_events(mon.COVERAGE_ID, mon.events.LINE)

    def dump():
        os.makedirs(covdir, exist_ok=True)
        with open(os.path.join(covdir, "%s-%d.json" % (prop, os.getpid())), "w") as fh:
            json.dump(sorted(seen), fh)
    atexit.register(dump)


def main():
    ap = argparse.ArgumentParser()
    ap.add_argument("prop")
    ap.add_argument("--builddir", required=True)
    ap.add_argument("--build", required=True)
    ap.add_argument("--shard", default="0/1")
    ap.add_argument("--tier", default="quick")
    ap.add_argument("--seed", type=int, default=1)
    ap.add_argument("--out", required=True)
    ap.add_argument("--hb")
    ap.add_argument("--replay")
    ap.add_argument("--subs", default="")
    a = ap.parse_args()

    warnings.simplefilter("ignore")
    # a runaway case must not take the machine down: cap the address space (a MemoryError is then
    # an ordinary exception inside the case)
    import resource
    cap = int(os.environ.get("VERIF_WORKER_MEM_MB", "8000")) << 20
    resource.setrlimit(resource.RLIMIT_AS, (cap, cap))
    sys.path.insert(0, a.builddir)
    covdir = os.environ.get("VERIF_COVERAGE")
    if covdir and a.build == "py":
        _line_coverage(os.path.realpath(a.builddir), covdir, a.prop)
    import asynq
    import asynq.scheduler

    # a harness crash must never be silent: asynq installs its own excepthook at import
    sys.excepthook = sys.__excepthook__
    real = os.path.realpath(os.path.dirname(asynq.__file__))
    assert real.startswith(os.path.realpath(a.builddir)), "asynq imported from %s, not from the scratch build" % real
    compiled = not asynq.scheduler.__file__.endswith(".py")
    assert compiled == (a.build == "cy"), "build %s but scheduler is %s" % (a.build, asynq.scheduler.__file__)

    from harness import common, sink
    sink.install()

    mod = importlib.import_module("harness.props.%s" % a.prop.lower())
    shard, nshards = [int(x) for x in a.shard.split("/")]
    ctx = common.Ctx(a.prop, a.build, shard, nshards, a.tier, a.seed, a.hb)
    only = set(s for s in a.subs.split(",") if s)
    if hasattr(mod, "setup"):
        mod.setup(ctx)
    if a.replay:
        doc = json.load(open(a.replay))
        subs = [s for s in mod.SUBS if s.name == doc["sub"]]
        assert subs, "unknown sub-check %r" % doc["sub"]
        ctx.cur_sub = subs[0].name
        ctx.begin(doc["case"])
        viol = common.safe_check(subs[0], doc["case"], ctx)
        for sig, msg in viol:
            ctx.violations.append({"sub": subs[0].name, "sig": sig, "msg": msg, "case": doc["case"], "build": a.build, "from": "replay"})
    else:
        for sub in mod.SUBS:
            if only and sub.name not in only:
                continue
            # regression inputs are replayed by shard 0 of each build only
            reg = common.regress_inputs(a.prop, sub.name) if shard == 0 else []
            common.run_sub(ctx, sub, reg)
    res = ctx.result()
    res["rule"] = getattr(mod, "RULE", "")
    res["assumptions"] = getattr(mod, "ASSUMPTIONS", [])
    with open(a.out, "w") as fh:
        json.dump(res, fh)


if __name__ == "__main__":
    try:
        main()
    except SystemExit:
        raise
    except BaseException:
        sys.excepthook = sys.__excepthook__
        sys.__stderr__.write("HARNESS ERROR\n" + traceback.format_exc())
        sys.__stderr__.flush()
        os._exit(2)
