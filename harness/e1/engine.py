"""E1: the generated-program workload, run on the real asynq, with in-body monitors.

Program AST (JSON; this is the replay format) -- see DESIGN.md section 4.1:

    Program = {root: Task, prio: {kind: [int..]}, faults: [[kind, no, "raise"|"hard"]],
               conv: "call"|"value"|"wrapper", nsv: int}
    Task    = {id, body: [Stmt], via: "return"|"result"}
    Stmt    = {op:"yield", y: Struct, catch: bool}
            | {op:"with", ctx: Ctx, body: [Stmt]}        (a real ``with`` statement)
            | {op:"try", body: [Stmt]}
            | {op:"sync", task: Task, how: "call"|"value", catch: bool}
            | {op:"read", sv: i} | {op:"readattr", obj: i}
            | {op:"raise", sid} | {op:"result"} | {op:"mk", task: Task}
    Struct  = null | ["T"|"L", [Struct..]] | ["D", [[key, Struct]..]] | Leaf
    Leaf    = ["task", Task] | ["ref", tid] | ["item", kind, arg, "ok"|"err"|"unset", uid]
            | ["ditem", name, result, uid] | ["const", v] | ["nonef"] | ["errfut", uid]
            | ["tool", name, ...]   (a library tool used inside the program, see "library tools" below)
            | ["lazy", "ok"|"raise", uid] | ["slazy", "ok"|"raise", k]  (one Future object per k, wherever it appears) | ["bad", v]
    Ctx     = ["rec", cid] | ["ov", sv, val] | ["attr", obj, val] | ["na", cid]
            | ["fail", cid, resume_at|null, pause_at|null]

Monitors never raise inside task bodies (a generated try/except could swallow them); they
append (clause, message) to env.viol, which the property inspects after the case.
"""
import asynq
from asynq import scheduler, ConstFuture, ErrorFuture, Future, none_future, result, AsyncContext, NonAsyncContext, AsyncScopedValue, async_override
from asynq.batching import BatchBase, BatchItemBase, DebugBatchItem
import asynq.batching as _batching
import asynq.profiler as _profiler
import asynq.tools as _tools
import asynq.debug as _debug

from .. import sink
from ..common import canon, shape, digest

A = asynq.asynq


class HExc(Exception):
    """Harness exception; ``key`` identifies it, identity is kept in env.excs."""

    def __init__(self, key):
        Exception.__init__(self, key)
        self.key = key


class HBase(BaseException):
    """a failure that is not an Exception subclass (the flush body of a client shutting down, ...)"""

    def __init__(self, key):
        BaseException.__init__(self, key)
        self.key = key


class HardFlush(Exception):
    pass


class CtxFail(Exception):
    pass


class CtxFailBase(BaseException):
    """a context failing with something that is not an Exception subclass"""


_OPTION_NAMES = [
    "DUMP_PRE_ERROR_STATE", "DUMP_EXCEPTIONS", "DUMP_SCHEDULE_TASK", "DUMP_CONTINUE_TASK", "DUMP_SCHEDULE_BATCH",
    "DUMP_FLUSH_BATCH", "DUMP_DEPENDENCIES", "DUMP_COMPUTED", "DUMP_NEW_TASKS", "DUMP_YIELD_RESULTS",
    "DUMP_QUEUED_RESULTS", "DUMP_CONTEXTS", "DUMP_SYNC", "DUMP_STACK", "DUMP_SCHEDULER_STATE", "DUMP_SYNC_CALLS",
    "COLLECT_PERF_STATS", "SCHEDULER_STATE_DUMP_INTERVAL", "DEBUG_STR_REPR_MAX_LENGTH", "STACK_DUMP_LIMIT",
    "MAX_TASK_STACK_SIZE", "ENABLE_COMPLEX_ASSERTIONS", "KEEP_DEPENDENCIES",
]
_OPTION_DEFAULTS = dict((k, getattr(_debug.options, k)) for k in _OPTION_NAMES)


def reset_process_state():
    """asynq keeps process-wide state; every case starts from the same one."""
    scheduler.reset()
    _batching._debug_batch_state.batches.clear()
    _profiler.reset()
    _tools.DeduplicateDecorator.tasks.clear()
    for k, v in _OPTION_DEFAULTS.items():
        setattr(_debug.options, k, v)
    sink.clear()


class Holder(object):
    """target of async_override"""

    def __init__(self, i):
        self.attr = ["init-attr", i]


class Rec(object):
    """Harness-side record of one task of the program."""

    def __init__(self, task, parent, how):
        self.tid = task["id"]
        self.task = task
        self.parents = [parent] if parent is not None else []   # awaiter tids
        self.how = how               # "root" | "yield" | "sync" | "mk"
        self.handle = None
        self.started = False
        self.yielded = how in ("root", "yield", "sync")
        self.last = []               # futures of the last yield, structure order
        self.done = False
        self.resumes = 0
        self.yields = 0
        self.got = []
        self.open_ctx = []
        self.open_ov = []
        self.closing = False
        self.outcome = None


class RecCtx(AsyncContext):
    def __init__(self, env, cid, owner):
        self.env = env
        self.cid = cid
        self.owner = owner
        self.active = False
        self.ev = []
        env.ctxs[cid] = self

    def __exit__(self, *exc_info):
        self.ev.append("X")          # the block is being left: exactly one pause follows, then nothing
        return AsyncContext.__exit__(self, *exc_info)

    def resume(self):
        self.ev.append("r")
        self.env.log.append(["r", self.cid])
        if self.active:
            self.env.v("C06.alternate", "context %r resumed twice in a row" % (self.cid,))
        self.active = True

    def pause(self):
        self.ev.append("p")
        self.env.log.append(["p", self.cid])
        if not self.active:
            self.env.v("C06.alternate", "context %r paused twice in a row" % (self.cid,))
        self.active = False


class FailCtx(AsyncContext):
    """A context whose n-th resume / pause raises (C08's fault set)."""

    def __init__(self, env, cid, resume_at, pause_at, base=False):
        self.env = env
        self.cid = cid
        self.resume_at = resume_at
        self.pause_at = pause_at
        self.exc_cls = CtxFailBase if base else CtxFail
        self.nr = 0
        self.np = 0

    def resume(self):
        self.nr += 1
        self.env.log.append(["r", self.cid])
        if self.resume_at is not None and self.nr == self.resume_at:
            raise self.exc_cls(("resume", self.cid))

    def pause(self):
        self.np += 1
        self.env.log.append(["p", self.cid])
        if self.pause_at is not None and self.np == self.pause_at:
            raise self.exc_cls(("pause", self.cid))


class NA(NonAsyncContext):
    pass


class HBatch(BatchBase):
    def __init__(self, env, kind):
        BatchBase.__init__(self)
        self.env = env
        self.kind = kind
        self.no = env.nb.get(kind, 0)
        env.nb[kind] = self.no + 1
        self.fault = env.faults.get((kind, self.no))
        env.batches.append(self)   # keep alive: harness tables are never keyed by id()

    def _try_switch_active_batch(self):
        if self.env.cur.get(self.kind) is self:
            self.env.cur[self.kind] = self.env.new_batch(self.kind)

    def flush(self):
        BatchBase.flush(self)
        if self.fault == "hard":
            raise HardFlush((self.kind, self.no))

    def _flush(self):
        env = self.env
        try:
            self._flush_body()
        except BaseException as e:
            # whatever escapes the flush body becomes the error of every item the body has not set
            for j in self.items:
                if not j.is_computed():
                    env.item_action[j.uid] = ["raised", canon(exc_key(e))]
            raise

    def _flush_body(self):
        env = self.env
        if env.on_step is not None:
            env.on_step()
        direct = any(b is self for b in env.direct)
        if not direct:
            env.events.append(["body", self.kind, self.no])     # (a direct item.value() flush has no scheduler events around it)
        # (not combined with an out-of-band flush: the batch is then still in the scheduler's pending set while its
        #  body runs, and a nested wait would flush it a second time -- a combination outside every listed property)
        if self.fault == "nested" and not direct:
            # the flush body itself calls synchronously into asynq code that needs a flush of another kind
            others = [k for k in env.kinds if k != self.kind]
            if others:
                env.in_nested += 1
                probe = Rec({"id": -1 - len(env.probes), "body": []}, None, "sync")
                env.probes.append(probe)
                env.waits.append(probe)
                try:
                    probe.handle = nested_probe.asynq(env, others[0], -1 - len(env.probes))
                    probe.handle.value()
                except BaseException:
                    # the nested computation was aborted (e.g. by a hard-failing flush): its request stays pending
                    # in a batch nobody awaits any more, which the scheduler will legitimately flush at some point
                    env.abandoned += 1
                    raise
                finally:
                    env.waits.pop()
                    env.in_nested -= 1
        env.flushes.append([self.kind, self.no, [canon(i.arg) for i in self.items]])
        env.log.append(["flush", self.kind, self.no, sorted(repr(i.arg) for i in self.items)])
        cut = len(self.items) // 2      # a raising flush body completes the first half of its items
        for n, i in enumerate(self.items):
            if self.fault in ("raise", "raise_base") and n >= cut:
                raise env.exc(("flush" if self.fault == "raise" else "flushbase", self.kind, self.no))
            env.item_action[i.uid] = i.outcome
            if i.outcome == "ok":
                i.set_value(["v", self.kind, i.arg])
            elif i.outcome == "err":
                i.set_error(env.exc(("item", i.uid)))
            elif i.outcome == "errbase":
                i.set_error(env.exc(("itembase", i.uid)))      # an error that is not an Exception subclass


class HBatchPrio(HBatch):
    """kinds with a generated priority table override get_priority (kinds without one keep asynq's default)"""

    def get_priority(self):
        # called by the scheduler only (the harness uses prio_of): a point inside batch selection where
        # another thread may take a turn (C16)
        if self.env.on_step is not None:
            self.env.on_step()
        p = self.env.prio[self.kind]
        return (p[self.no % len(p)], 0)


def prio_of(batch):
    """the priority the scheduler should see (for a batch that does not override it: the documented default)"""
    if isinstance(batch, HBatchPrio):
        p = batch.env.prio[batch.kind]
        return (p[batch.no % len(p)], 0)
    return (0, len(batch.items))


class HItem(BatchItemBase):
    def __init__(self, env, kind, arg, outcome, uid):
        BatchItemBase.__init__(self, env.batch(kind))
        self.env = env
        self.arg = arg
        self.outcome = outcome
        self.uid = uid
        self.ncomp = 0
        self.seen = None
        env.items.append(self)
        self.on_computed.subscribe(self._done)

    def _done(self, _):
        self.ncomp += 1
        env = self.env
        open_windows = env.open_windows        # maintained by the before/after hooks
        mine = [self.batch.kind, self.batch.no]
        if mine not in open_windows and not any(b is self.batch for b in env.direct):
            env.v("C05.window", "item %r completed outside the before/after window of its batch's flush (open: %r)" % (self.uid, open_windows))
        self.seen = ("err", self._error) if self._error is not None else ("ok", self._value)


class Env(object):
    def __init__(self, prog):
        self.prog = prog
        self.prio = dict(prog.get("prio") or {})
        self.faults = {(k, n): f for k, n, f in prog.get("faults") or []}
        self.cur = {}
        self.nb = {}
        self.batches = []
        self.recs = {}
        self.viol = []
        self.log = []          # global, ordered: steps, context events, flushes
        self.events = []       # before / body / after
        self.flushes = []
        self.items = []
        self.item_action = {}
        self.excs = {}
        self.ctxs = {}
        self.run_stack = []    # tids whose body code is executing, innermost last
        self.waits = []        # recs being waited for synchronously, innermost last
        self.start_seq = []
        self.start_pos = {}
        self.svs = [AsyncScopedValue(["init", i]) for i in range(prog.get("nsv", 2))]
        self.objs = [Holder(i) for i in range(prog.get("nsv", 2))]
        self.direct = []       # batches being flushed / cancelled out of band (not by the scheduler), innermost last
        self.yield_only = not has_sync(prog["root"])
        self.check_c04 = False
        self.check_c06 = False
        self.flush_snapshots = []
        self.keep = []         # futures kept alive for the whole case
        self.cwc_seen = {}     # cid -> the exception call_with_context's context was told about at exit
        self.premade = set()   # tids of tasks created by the starting code (prog["premade"])
        self.gens = {}         # (tid, gid) -> async generator object iterated by hand
        self.tool_uid = 0      # items created inside library-tool bodies get negative uids
        self.dd_inside = {}    # deduplicated tool bodies: key -> the body is re-entering itself right now
        self.retry_runs = {}   # aretry tool: key -> attempts so far
        self.tool_runs = {}    # (tool, key) -> body runs
        self.shared_lazy = {}  # k -> the one Future object of ["slazy", mode, k]
        self.lazy_runs = {}    # k -> times its provider ran
        self.lazy_notes = {}   # k -> times its on_computed subscriber was notified
        self.deliveries = {}   # exception key -> tids it was thrown into
        self.delivered_multi = 0
        self.delivered_caught = 0
        self.ncands = 0
        self.ncancelled = 0
        self.ndirect = 0
        self.on_step = None    # C16: harness-owned thread schedule (turnstile) hooks in here
        self.in_nested = 0     # > 0 while a flush body makes a synchronous call into asynq
        self.flushed_once = set()
        self.open_windows = [] # [kind, no] of scheduler flushes in progress, innermost last
        self.abandoned = 0     # nested computations aborted mid-way (their requests stay pending, awaited by nobody)
        self.probes = []
        self.built = {}        # (tid, yid) -> the very object a yield statement yielded
        kinds = set()
        for t in all_tasks(prog["root"]):
            for st_ in walk_stmts(t["body"]):
                if st_["op"] == "yield":
                    for leaf in walk_struct(st_["y"]):
                        if leaf[0] == "item":
                            kinds.add(leaf[1])
                elif st_["op"] == "itemvalue":
                    kinds.add(st_["item"][1])
        self.kinds = sorted(kinds)
        self.nctx_entered = 0
        self.ctx_span_flush = 0       # flushes during which >= 2 tasks were inside a recording context
        self.ov_span_flush = 0        # flushes during which >= 2 tasks held an override of the same value
        self.reads_after_ov_flush = 0

    def v(self, clause, msg):
        if len(self.viol) < 50:
            self.viol.append((clause, msg))

    def new_batch(self, kind):
        return (HBatchPrio if self.prio.get(kind) is not None else HBatch)(self, kind)

    def batch(self, kind):
        b = self.cur.get(kind)
        if b is None:
            b = self.cur[kind] = self.new_batch(kind)
        return b

    def exc(self, key):
        e = self.excs.get(key)
        if e is None:
            e = self.excs[key] = (HBase if key[0] in ("flushbase", "itembase") else HExc)(key)
        return e

    # ---- relations over the await / sync-call graph ---------------------------
    def reach(self, tid):
        """{ancestor-or-self tid: unique path?} for every task that reaches ``tid``."""
        out = {}
        unique = {tid: True}
        stack = [tid]
        while stack:
            t = stack.pop()
            r = self.recs[t]
            for p in r.parents:
                u = unique[t] and len(r.parents) == 1
                if p in unique:
                    unique[p] = False   # reached along two paths
                else:
                    unique[p] = u
                    stack.append(p)
        return unique

    def check_ctx_at_step(self, tid):
        reach = self.reach(tid)
        for r in self.recs.values():
            for cid in r.open_ctx:
                c = self.ctxs.get(cid)
                if c is None:
                    continue
                if r.tid in reach:
                    if reach[r.tid] and not c.active:
                        self.v("C06.active", "context %r of task %r is paused while task %r (which it awaits) runs" % (cid, r.tid, tid))
                elif c.active:
                    self.v("C06.active", "context %r of task %r is active while unrelated task %r runs" % (cid, r.tid, tid))

    def check_ctx_at_flush(self):
        reach = self.reach(self.run_stack[-1]) if self.run_stack else {}
        for r in self.recs.values():
            for cid in r.open_ctx:
                c = self.ctxs.get(cid)
                if c is None:
                    continue
                if r.tid in reach:
                    if reach[r.tid] and not c.active:
                        self.v("C06.flush", "context %r of task %r paused during a flush driven by a synchronous call below it" % (cid, r.tid))
                elif c.active:
                    self.v("C06.flush", "context %r of suspended task %r is active during a batch flush" % (cid, r.tid))


def has_sync(task):
    for s in walk_stmts(task["body"]):
        if s["op"] in ("sync", "itemvalue", "syncref"):
            return True
        if s["op"] == "yield":
            for leaf in walk_struct(s["y"]):
                if leaf[0] == "task" and has_sync(leaf[1]):
                    return True
        if s["op"] == "mk" and has_sync(s["task"]):
            return True
    return False


def walk_stmts(body):
    for s in body:
        yield s
        if s["op"] in ("with", "try"):
            for x in walk_stmts(s["body"]):
                yield x


def walk_struct(s):
    if s is None:
        return
    tag = s[0]
    if tag in ("T", "L"):
        for x in s[1]:
            for y in walk_struct(x):
                yield y
    elif tag == "D":
        for k, x in s[1]:
            for y in walk_struct(x):
                yield y
    else:
        yield s


def all_tasks(task):
    """every Task in the program, in program order"""
    yield task
    for s in walk_stmts(task["body"]):
        if s["op"] == "sync" or s["op"] == "mk":
            for t in all_tasks(s["task"]):
                yield t
        elif s["op"] == "yield":
            for leaf in walk_struct(s["y"]):
                if leaf[0] == "task":
                    for t in all_tasks(leaf[1]):
                        yield t


# ---------------------------------------------------------------------------------
# the interpreter
# ---------------------------------------------------------------------------------

def build(env, s, futs, me, fresh):
    """Materialises a yield structure; ``futs`` receives its futures in structure order,
    ``fresh`` the tids of tasks created here in list/tuple positions."""
    if s is None:
        return None
    tag = s[0]
    if tag == "T":
        return tuple([build(env, x, futs, me, fresh) for x in s[1]])
    if tag == "L":
        return [build(env, x, futs, me, fresh) for x in s[1]]
    if tag == "D":
        return dict([(k, build(env, x, futs, me, None)) for k, x in s[1]])
    if tag == "task":
        t = s[1]
        rec = env.recs[t["id"]] = Rec(t, me, "yield")
        rec.handle = run_task.asynq(env, t)
        futs.append(rec.handle)
        if fresh is not None:
            fresh.append(t["id"])
        return rec.handle
    if tag == "ref":
        rec = env.recs[s[1]]
        rec.yielded = True
        if me not in rec.parents:
            rec.parents.append(me)
        futs.append(rec.handle)
        return rec.handle
    if tag == "item":
        it = HItem(env, s[1], s[2], s[3], s[4])
        futs.append(it)
        return it
    if tag == "ditem":
        it = DebugBatchItem(s[1], s[2])
        env.keep.append(it)
        for other in it.batch.items:
            if not any(other is mine for mine in env.keep):
                env.v("C16.debugbatch", "a DebugBatchItem joined a batch that holds an item of another computation/thread")
                break
        futs.append(it)
        return it
    if tag == "const":
        f = ConstFuture(s[1])
    elif tag == "nonef":
        f = none_future
    elif tag == "excval":
        f = ConstFuture(ValueError(s[1]))       # a future whose *value* happens to be an exception instance
    elif tag == "errfut":
        f = ErrorFuture(env.exc(("errfut", s[1])))
    elif tag == "lazy":
        if s[1] == "ok":
            uid = s[2]
            f = Future(lambda: ["lazy", uid])
        else:
            e = env.exc(("lazy", s[2]))

            def prov():
                raise e
            f = Future(prov)
    elif tag == "slazy":
        f = env.shared_lazy.get(s[2])
        if f is None:
            k, mode = s[2], s[1]
            e = env.exc(("slazy", k)) if mode == "raise" else None

            def prov():
                env.lazy_runs[k] = env.lazy_runs.get(k, 0) + 1
                if env.lazy_runs[k] > 1:
                    env.v("C10.once", "the provider of Future %r ran %d times" % (k, env.lazy_runs[k]))
                if e is not None:
                    raise e
                return ["slazy", k]
            f = env.shared_lazy[k] = Future(prov)
            f.on_computed.subscribe(lambda fut: env.lazy_notes.__setitem__(k, env.lazy_notes.get(k, 0) + 1))
    elif tag == "tool":
        f = build_tool(env, s)
    elif tag == "bad":
        return s[1]
    else:
        raise AssertionError("unknown leaf %r" % (tag,))
    futs.append(f)
    return f


# ---- library tools inside programs ---------------------------------------------------------------
# ["tool", "dd", k, kind]            deduplicated function; k % 4: 0 plain, 1 re-enters itself once with the same key
#                                    (the documented escape hatch), 2 handles a failed dependency and re-enters itself
#                                    from the handler (C08 only: the outcome is not specified), 3 raises
# ["tool", "alru", k, kind]          alru_cache'd function
# ["tool", "agen", n, kind, cid0, m] list_of_generator over an @async_generator() body of n items; m: "plain" | "await"
#                                    (a recording context around each awaited future) | "value" (around each Value)
# ["tool", "amap"|"asorted"|"amin"|"amax"|"afilter", k, n, kind]   collection helper over n elements, key/predicate blocks on an item
# ["tool", "retry", k, kind]         aretry'd function whose first attempt fails with a listed exception
# ["tool", "cwc", k, kind, cid]      call_with_context(recording context, function)

class HRetry(Exception):
    pass


def _titem(env, kind, arg):
    env.tool_uid -= 1
    return HItem(env, kind, arg, "ok", env.tool_uid)


def _tread(env):
    """C07: what a tool body reads of scoped value 0 after its request came back (only when the program asks for it)"""
    return [shape(env.svs[0].get())] if env.prog.get("tool_reads") else []


def _count(env, tool, k):
    env.tool_runs[(tool, k)] = env.tool_runs.get((tool, k), 0) + 1


def _make_dd(tag, holder):
    """two deduplicated functions with one module, name and qualified name (closures of one factory)"""
    @_tools.deduplicate()
    @A()
    def t_dd(env, k, kind):
        if env.dd_inside.get(k):
            return [tag + "-inner", k]          # the private task of a call made from inside the running body
        _count(env, tag, k)
        mode = k % 4
        if mode == 3:
            raise env.exc((tag, k))
        inner = None
        if mode == 1:
            env.dd_inside[k] = True
            try:
                inner = t_dd.asynq(env, k, kind).value()
            finally:
                env.dd_inside[k] = False
        elif mode == 2:
            try:
                yield ErrorFuture(env.exc(("dd-dep", k)))
            except HExc:
                env.dd_inside[k] = True
                try:
                    inner = t_dd.asynq(env, k, kind).value()
                except BaseException as e:
                    inner = ["inner-raised", type(e).__name__]
                finally:
                    env.dd_inside[k] = False
            if k >= 4:
                return [tag, k, None, inner]
        v = yield _titem(env, kind, k)
        return [tag, k, shape(v), inner]
    return t_dd


_DD = {}
_DD[0] = t_dd = _make_dd("dd", _DD)
_DD[1] = _make_dd("dd-twin", _DD)


@_tools.alru_cache(maxsize=32)
@A()
def t_alru(env, k, kind):
    _count(env, "alru", k)
    v = yield _titem(env, kind, k)
    if k % 2:
        yield _titem(env, kind, k + 100)       # a second, sequentially dependent request
    return ["alru", k, shape(v)]


@asynq.async_generator()
def t_gen(env, n, kind, cid0, mode):
    for i in range(n):
        if mode == "await":
            with RecCtx(env, cid0 + i, None):
                v = yield _titem(env, kind, i)
            yield asynq.Value(["g", i, shape(v)] + _tread(env))
        elif mode == "value":
            v = yield _titem(env, kind, i)
            with RecCtx(env, cid0 + i, None):
                yield asynq.Value(["g", i, shape(v)] + _tread(env))
        elif mode == "span":
            break
        else:
            v = yield _titem(env, kind, i)
            yield asynq.Value(["g", i, shape(v)] + _tread(env))
    if mode == "span":
        # one block around several Values (no await inside: this part of the body runs in the consumer's own steps), then an await
        with RecCtx(env, cid0, None):
            for i in range(n):
                yield asynq.Value(["g", i, ["v", kind, i]] + _tread(env))
        v = yield _titem(env, kind, n)
        yield asynq.Value(["g", n, shape(v)] + _tread(env))


def t_key(env, kind):
    @A()
    def key(x):
        v = yield _titem(env, kind, x)
        return v[2]                      # the item's value is ["v", kind, arg]
    return key


def t_val(env, kind):
    @A()
    def val(x):
        v = yield _titem(env, kind, x)
        return [v[2]] + _tread(env) if env.prog.get("tool_reads") else v[2]
    return val


def t_pred(env, kind):
    @A()
    def pred(x):
        v = yield _titem(env, kind, x)
        return v[2] % 2 == 0
    return pred


def _retry_body(env, k, kind):
    n = env.retry_runs[k] = env.retry_runs.get(k, 0) + 1
    v = yield _titem(env, kind, k)
    if n == 1:
        raise HRetry(k)
    return ["retry", k, n, shape(v)] + _tread(env)


t_retry = _tools.aretry(HRetry, max_tries=2, sleep=0)(A()(_retry_body))


@A()
def t_plain(env, k, kind):
    v = yield _titem(env, kind, k)
    if k % 4 >= 2:
        raise env.exc(("cwc", k))
    return ["plain", k, shape(v)] + _tread(env)


class CwcCtx(RecCtx):
    """the context handed to call_with_context: records what its __exit__ is told; for k % 4 == 3 it suppresses the failure"""

    def __init__(self, env, cid, k):
        RecCtx.__init__(self, env, cid, None)
        self.k = k

    def __exit__(self, typ, val, tb):
        self.env.cwc_seen[self.cid] = val
        RecCtx.__exit__(self, typ, val, tb)
        return self.k % 4 == 3 and typ is not None


def build_tool(env, s):
    name = s[1]
    if name == "dd":
        return _DD[s[4] if len(s) > 4 else 0].asynq(env, s[2], s[3])
    if name == "alru":
        return t_alru.asynq(env, s[2], s[3])
    if name == "agen":
        return asynq.list_of_generator.asynq(t_gen(env, s[2], s[3], s[4], s[5]))
    if name in ("amap", "asorted", "amin", "amax", "afilter"):
        k, n, kind = s[2], s[3], s[4]
        xs = list(range(k + n - 1, k - 1, -1))
        if name == "amap":
            return _tools.amap.asynq(t_val(env, kind), xs)
        if name == "afilter":
            return _tools.afilter.asynq(t_pred(env, kind), xs)
        fn = {"asorted": _tools.asorted, "amin": _tools.amin, "amax": _tools.amax}[name]
        return fn.asynq(xs, key=t_key(env, kind))
    if name == "retry":
        return t_retry.asynq(env, s[2], s[3])
    if name == "cwc":
        return _tools.call_with_context.asynq(CwcCtx(env, s[4], s[2]), t_plain, env, s[2], s[3])
    raise AssertionError("unknown tool %r" % (name,))


def make_ctx(env, rec, c):
    tag = c[0]
    if tag == "rec":
        return RecCtx(env, c[1], rec.tid)
    if tag == "ov":
        return env.svs[c[1]].override(c[2])
    if tag == "attr":
        return async_override(env.objs[c[1]], "attr", c[2])
    if tag == "na":
        # a subclass, as the docstring suggests, or the class itself ("no yields in this block")
        return NA() if c[1] % 2 == 0 else NonAsyncContext()
    if tag == "fail":
        return FailCtx(env, c[1], c[2], c[3], bool(c[4]) if len(c) > 4 else False)
    raise AssertionError(c)


def enter_body(env, rec, me):
    env.run_stack.append(rec.tid)
    if scheduler.get_active_task() is not me:
        env.v("C08.active", "get_active_task() is not the running task %r" % (rec.tid,))
    if env.check_c06:
        env.check_ctx_at_step(rec.tid)


def leave_body(env, rec):
    if env.run_stack and env.run_stack[-1] == rec.tid:
        env.run_stack.pop()
    else:  # pragma: no cover - harness invariant
        env.v("HARNESS", "run stack corrupted at %r: %r" % (rec.tid, env.run_stack))


def exc_key(e):
    if isinstance(e, (HExc, HBase)):
        return e.key
    if isinstance(e, HardFlush):
        return ["hard"] + list(e.args[0])
    if isinstance(e, (CtxFail, CtxFailBase)):
        return ["ctxfail"] + list(e.args[0])
    return type(e).__name__


CATCHABLE = (HExc, HBase, AssertionError, TypeError, HardFlush, CtxFail, CtxFailBase)


def exec_block(env, rec, me, body):
    """A plain generator; task bodies delegate with ``yield from`` so that every yield goes
    straight to the scheduler and ``with``/``try`` are Python's own."""
    tid = rec.tid
    for st in body:
        op = st["op"]
        env.log.append(["step", tid, op])
        if env.on_step is not None:
            env.on_step()
        if env.check_c06:
            env.check_ctx_at_step(tid)
        if scheduler.get_active_task() is not me:
            env.v("C08.active", "get_active_task() is not the running task %r" % (tid,))
        if op in ("yield", "reyield"):
            futs = []
            fresh = []
            if op == "yield":
                y = build(env, st["y"], futs, tid, fresh)
                if "yid" in st:
                    env.built[(tid, st["yid"])] = (y, futs)
            else:
                # the very same object (same list / tuple / dict / future) is yielded again
                y, futs = env.built[(tid, st["yid"])]
                futs = list(futs)
            rec.last = futs
            rec.yields += 1
            leave_body(env, rec)
            try:
                v = yield y
            except CATCHABLE as e:
                enter_body(env, rec, me)
                rec.resumes += 1
                for f in futs:
                    if not f.is_computed():
                        env.v("C02.siblings", "task %r received an error while a future it yielded alongside is still uncomputed" % (tid,))
                first = None
                for f in futs:
                    if f.is_computed() and f._error is not None:
                        first = f
                        break
                if isinstance(e, (HExc, HBase)):
                    if first is None:
                        env.v("C02.identity", "task %r received %r but no yielded future failed" % (tid, e.key))
                    elif first._error is not e:
                        env.v("C02.identity", "task %r received %r, not the error object of the first failing future in structure order (%r)" % (tid, e.key, exc_key(first._error)))
                _after_resume(env, rec, futs, fresh)
                d = env.deliveries.setdefault(repr(exc_key(e)), set())
                d.add(tid)
                if len(futs) >= 2:
                    env.delivered_multi += 1
                if not st["catch"]:
                    raise
                env.delivered_caught += 1
                rec.got.append(["caught", canon(exc_key(e))])
            except BaseException as e:
                # generator closed (abandoned task) or a foreign exception: keep the run stack sane
                env.run_stack.append(tid)
                if isinstance(e, GeneratorExit):
                    # the generator of an abandoned task is being closed -- possibly by the garbage collector, in
                    # the middle of a later computation: from here on this body must only unwind, never go on
                    rec.closing = True
                raise
            else:
                enter_body(env, rec, me)
                rec.resumes += 1
                _after_resume(env, rec, futs, fresh)
                rec.got.append(["ok", shape(v)])
        elif op == "with":
            c = st["ctx"]
            ctx = make_ctx(env, rec, c)
            tracked = c[0] == "rec"
            if tracked:
                rec.open_ctx.append(c[1])
            elif c[0] in ("ov", "attr"):
                rec.open_ov.append((c[0], c[1]))
            env.nctx_entered += 1
            try:
                with ctx:
                    yield from exec_block(env, rec, me, st["body"])
            finally:
                if tracked:
                    rec.open_ctx.remove(c[1])
                elif c[0] in ("ov", "attr"):
                    rec.open_ov.remove((c[0], c[1]))
        elif op == "try":
            try:
                yield from exec_block(env, rec, me, st["body"])
            except CATCHABLE as e:
                if rec.closing or (rec.handle is not None and rec.handle.is_computed()):
                    raise      # the generator of a failed / abandoned task is being closed: do not go on
                rec.got.append(["caught", canon(exc_key(e))])
        elif op == "sync":
            sc = st["task"]
            srec = env.recs[sc["id"]] = Rec(sc, tid, "sync")
            env.waits.append(srec)
            try:
                if st["how"] == "value":
                    srec.handle = run_task.asynq(env, sc)
                    val = srec.handle.value()
                else:
                    val = run_task(env, sc)
                rec.got.append(["sync", shape(val)])
            except CATCHABLE as e:
                if not st["catch"] or rec.closing:
                    raise
                rec.got.append(["syncexc", canon(exc_key(e))])
            finally:
                env.waits.pop()
                if scheduler.get_active_task() is not me:
                    env.v("C08.active", "get_active_task() is not task %r after its synchronous call returned" % (tid,))
        elif op == "syncref":
            # a task created elsewhere (by an ancestor's mk) is computed synchronously here: h.value()
            srec = env.recs[st["tid"]]
            srec.yielded = True
            if tid not in srec.parents:
                srec.parents.append(tid)
            env.waits.append(srec)
            try:
                val = srec.handle.value()
                rec.got.append(["sync", shape(val)])
            except CATCHABLE as e:
                if not st["catch"] or rec.closing:
                    raise
                rec.got.append(["syncexc", canon(exc_key(e))])
            finally:
                env.waits.pop()
                if scheduler.get_active_task() is not me:
                    env.v("C08.active", "get_active_task() is not task %r after it computed a task created elsewhere synchronously" % (tid,))
        elif op == "itemvalue":
            # item.value() called directly inside a body: flushes the item's batch out of band, without the scheduler
            leaf = st["item"]
            it = HItem(env, leaf[1], leaf[2], leaf[3], leaf[4])
            env.direct.append(it.batch)
            try:
                try:
                    val = it.value()
                finally:
                    env.direct.pop()
                rec.got.append(["ival", shape(val)])
            except CATCHABLE as e:
                if not st["catch"] or rec.closing:
                    raise
                rec.got.append(["ivalexc", canon(exc_key(e))])
            env.ndirect += 1
        elif op == "cancel":
            b = env.cur.get(st["kind"])
            if b is not None and b.items and not b.is_flushed():
                err = env.exc(("cancel", b.kind, b.no))
                for j in b.items:
                    if not j.is_computed():
                        env.item_action[j.uid] = ["raised", ["cancel", b.kind, b.no]]
                env.direct.append(b)
                try:
                    b.cancel(err)
                finally:
                    env.direct.pop()
                env.ncancelled += 1
        elif op == "read":
            if env.ov_span_flush:
                env.reads_after_ov_flush += 1
            rec.got.append(["read", st["sv"], canon(env.svs[st["sv"]].get())])
        elif op == "readattr":
            rec.got.append(["readattr", st["obj"], canon(env.objs[st["obj"]].attr)])
        elif op == "raise":
            raise env.exc(("raise", tid, st["sid"]))
        elif op == "result":
            rec.done = True
            result(["tv", tid, digest(rec.got)])
        elif op == "mk":
            t = st["task"]
            if t["id"] in env.premade:
                continue        # this task object was created by the starting code, before the computation began
            r = env.recs[t["id"]] = Rec(t, None, "mk")
            r.handle = run_task.asynq(env, t)
        elif op == "genstart":
            # an async generator iterated by hand, a few items at a time, by later "gennext" statements of this task
            env.gens[(tid, st["gid"])] = t_gen(env, st["n"], st["kind"], st["cid0"], st["mode"])
        elif op == "gennext":
            g = env.gens.get((tid, st["gid"]))
            vals = []
            for _ in range(st["count"] if g is not None else 0):
                try:
                    t = next(g)
                except StopIteration:
                    break
                futs = [t]
                rec.last = futs
                rec.yields += 1
                leave_body(env, rec)
                try:
                    v = yield t
                except BaseException as e:
                    env.run_stack.append(tid)
                    if isinstance(e, GeneratorExit):
                        rec.closing = True
                    raise
                enter_body(env, rec, me)
                rec.resumes += 1
                _after_resume(env, rec, futs, [])
                if v is asynq.generator.END_OF_GENERATOR:
                    continue
                vals.append(shape(v))
            rec.got.append(["gen", vals])
        else:
            raise AssertionError("unknown op %r" % (op,))


def _after_resume(env, rec, futs, fresh):
    tid = rec.tid
    if rec.done:
        env.v("C03.after_done", "task %r was resumed after it had completed" % (tid,))
    for f in futs:
        if not f.is_computed():
            env.v("C03.uncomputed", "task %r was resumed while a future it yielded is uncomputed" % (tid,))
            break
    if rec.resumes != rec.yields:
        env.v("C03.once", "task %r: %d resumes for %d yields" % (tid, rec.resumes, rec.yields))
    # tasks first scheduled by this yield, in list/tuple positions, start in the order written
    started = [env.start_pos[x] for x in fresh if x in env.start_pos]
    if len(started) != len(fresh):
        env.v("C03.uncomputed", "task %r resumed although a task it yielded never started" % (tid,))
    elif started != sorted(started):
        env.v("C03.start_order", "tasks yielded together by %r started out of order: %r" % (tid, [env.start_pos[x] for x in fresh][:20]))


@A()
def run_task(env, t):
    tid = t["id"]
    rec = env.recs[tid]
    me = scheduler.get_active_task()
    if rec.handle is None:
        rec.handle = me
    elif rec.handle is not me:
        env.v("C08.active", "get_active_task() is not the task being started (%r)" % (tid,))
    if rec.started:
        env.v("C03.once", "task %r started twice" % (tid,))
    if not rec.yielded:
        env.v("C03.orphan", "task %r was never yielded or waited on but started" % (tid,))
    rec.started = True
    env.start_pos[tid] = len(env.start_seq)
    env.start_seq.append(tid)
    env.log.append(["start", tid])
    enter_body(env, rec, me)
    try:
        yield from exec_block(env, rec, me, t["body"])
        rec.done = True
    except BaseException:
        rec.done = True
        raise
    finally:
        leave_body(env, rec)
    if t.get("via") == "result":
        result(["tv", tid, digest(rec.got)])
        return
    return ["tv", tid, digest(rec.got)]


@A()
def nested_probe(env, kind, uid):
    v = yield HItem(env, kind, 0, "ok", uid)
    return v


@A()
def wrapper_task(env, t, rec):
    rec.handle = run_task.asynq(env, t)
    v = yield rec.handle
    return v


# ---------------------------------------------------------------------------------
# running one case
# ---------------------------------------------------------------------------------

class _Null(object):
    def __enter__(self):
        return self

    def __exit__(self, *a):
        return False


class FakeClock(object):
    """harness clock for asynq's utime(): advances by a fixed amount per reading"""

    def __init__(self, inc):
        self.now = 1000000
        self.inc = inc
        self.reads = 0

    def __call__(self):
        self.now += self.inc
        self.reads += 1
        return self.now


def prepare(prog):
    """An Env and the (unstarted) root task object of a run that will happen later: task objects may be created long
    before the computation that runs them, e.g. before an earlier computation on the same thread."""
    env = Env(prog)
    root = prog["root"]
    rec = env.recs[root["id"]] = Rec(root, None, "root")
    rec.handle = run_task.asynq(env, root)
    premake(env)
    return env


def premake(env):
    """prog["premade"]: the task objects that the root's leading ``mk`` statements would create are created by the starting
    code instead (outside any task, possibly long before the computation that awaits them)"""
    if not env.prog.get("premade") or env.premade:
        return
    for st in env.prog["root"]["body"]:
        if st["op"] != "mk":
            break
        t = st["task"]
        r = env.recs[t["id"]] = Rec(t, None, "mk")
        r.handle = run_task.asynq(env, t)
        env.premade.add(t["id"])


@A()
def _prelude_task():
    v = yield DebugBatchItem("prelude", 1)
    return v


def prelude():
    """an ordinary small computation that ran on this thread before the harness subscribed to anything"""
    with sink.capture_print():
        _prelude_task()
    _batching._debug_batch_state.batches.clear()


@A()
def _carry_task(handle, out):
    try:
        v = yield handle
        out.append(("ok", v))
    except BaseException as e:      # the stored failure of the earlier computation, delivered at this yield
        out.append(("exc", e))
    return None


def carry_probe(handle):
    """a later computation awaits (bare yield) a task that an earlier computation already completed: it must receive
    that task's stored value, or have its stored error raised at the yield"""
    out = []
    with sink.capture_print():
        _carry_task(handle, out)
    return out[0] if out else ("nothing",)


def interlude():
    """what ordinary starting code does between two computations: with-blocks entered and left outside any task"""
    v = AsyncScopedValue("interlude")
    with v.override("x"):
        pass
    h = Holder(0)
    with async_override(h, "attr", 1):
        with _Quiet():
            pass
    with NonAsyncContext():
        pass


class _Quiet(AsyncContext):
    def resume(self):
        pass

    def pause(self):
        pass


def run_program(prog, check_c04=False, check_c06=False, reset=True, options=None, clock=None, capture=True, on_step=None, prepared=None):
    """Runs the program on asynq. Returns env; env.outcome is ["ok", v] | ["exc", key] | ["escaped", type, text]."""
    if reset:
        reset_process_state()
    if options:
        for k, v in options.items():
            setattr(_debug.options, k, v)
    env = prepared if prepared is not None else Env(prog)
    env.on_step = on_step
    env.check_c04 = check_c04
    env.check_c06 = check_c06
    root = prog["root"]
    rec = env.recs[root["id"]] if prepared is not None else Rec(root, None, "root")
    env.recs[root["id"]] = rec
    env.waits.append(rec)
    sch = scheduler.get_scheduler()
    env.scheduler = sch

    def before(batch):
        if not isinstance(batch, HBatch):
            env.events.append(["before", "debug", getattr(batch, "index", 0)])
            return
        if env.check_c04 and not rec.started:
            env.v("C04.maximal", "a batch was flushed before the awaited task %r had started" % (rec.tid,))
        if batch.env is not env:
            # a request left behind by an earlier computation on this scheduler: asynq may flush it whenever it flushes
            env.events.append(["before", "foreign", batch.kind, batch.no])
            return
        key = ["before", batch.kind, batch.no]
        if (batch.kind, batch.no) in env.flushed_once:
            env.v("C05.once", "batch %s#%d flushed twice by the scheduler" % (batch.kind, batch.no))
        env.flushed_once.add((batch.kind, batch.no))
        env.events.append(key)
        env.open_windows.append([batch.kind, batch.no])
        if not batch.items:
            env.v("C05.empty", "an empty batch was flushed")
        if batch.is_flushed():
            env.v("C05.once", "an already flushed/cancelled batch was flushed")
        target = env.waits[-1] if env.waits else None
        if target is not None and target.handle is not None and target.handle.is_computed():
            env.v("C05.after_complete", "a batch was flushed although the awaited computation (task %r) is complete" % (target.tid,))
        if len(env.recs) > 2000 and len(env.flushes) > 50:
            return      # very wide program with many flushes: the per-flush scans below are O(tasks); the first 50 flushes suffice
        if env.check_c06:
            env.check_ctx_at_flush()
        if sum(1 for r in env.recs.values() if r.open_ctx) >= 2:
            env.ctx_span_flush += 1
        held = {}
        for r in env.recs.values():
            for k in set(r.open_ov):
                held[k] = held.get(k, 0) + 1
        if any(n >= 2 for n in held.values()):
            env.ov_span_flush += 1
        if env.yield_only and not env.in_nested and not env.abandoned:
            cands = {}
            for r in list(env.recs.values()):
                if not r.yielded or r.handle is None or r.handle.is_computed():
                    continue
                if not any(env.recs[p].started for p in r.parents) and r.how != "root":
                    continue
                if not r.started:
                    if env.check_c04:
                        env.v("C04.maximal", "flush while awaited task %r has not started" % (r.tid,))
                    continue
                unc = [f for f in r.last if not f.is_computed()]
                if not unc and env.check_c04:
                    env.v("C04.maximal", "flush while task %r is runnable (everything it yielded is computed)" % (r.tid,))
                for f in unc:
                    if isinstance(f, HItem):
                        cands[(f.batch.kind, f.batch.no)] = f.batch
            env.flush_snapshots.append(sorted(cands))
            if (batch.kind, batch.no) not in cands:
                env.v("C05.priority", "flushed batch %s#%d holds no item awaited by a blocked task" % (batch.kind, batch.no))
            else:
                best = max(prio_of(b) for b in cands.values())
                if prio_of(batch) != best:
                    env.v("C05.priority", "flushed %s#%d with priority %r while a pending batch has %r" % (batch.kind, batch.no, prio_of(batch), best))
                env.ncands = max(env.ncands, len(set(k for k, n in cands)))

    def after(batch):
        if not isinstance(batch, HBatch):
            env.events.append(["after", "debug", getattr(batch, "index", 0)])
            return
        if batch.env is not env:
            env.events.append(["after", "foreign", batch.kind, batch.no])
            return
        env.events.append(["after", batch.kind, batch.no])
        if env.open_windows:
            env.open_windows.pop()

    sch.on_before_batch_flush.subscribe(before)
    sch.on_after_batch_flush.subscribe(after)
    conv = prog.get("conv", "value")
    premake(env)
    real_utime = asynq.scheduler.utime
    if clock is not None:
        asynq.scheduler.utime = clock
    try:
        with (sink.capture_print() if capture else _Null()):
            if conv == "call":
                val = run_task(env, root)
            elif conv == "wrapper":
                val = wrapper_task(env, root, rec)
            else:
                if rec.handle is None:
                    rec.handle = run_task.asynq(env, root)
                val = rec.handle.value()
        env.outcome = ["ok", shape(val)]
    except CATCHABLE as e:
        env.outcome = ["exc", canon(exc_key(e))]
        env.raised = e
        if isinstance(e, (HExc, HBase)) and rec.handle is not None and rec.handle.is_computed() and rec.handle._error is not e:
            env.v("C02.identity", "value() raised %r, a different object than the task's error()" % (e.key,))
    except BaseException as e:
        env.outcome = ["escaped", type(e).__name__, str(e)[:200]]
        env.raised = e
    finally:
        asynq.scheduler.utime = real_utime
        try:
            sch.on_before_batch_flush.unsubscribe(before)
            sch.on_after_batch_flush.unsubscribe(after)
        except Exception:
            pass
    env.waits.pop()
    env.sched_tasks_left = len(sch._tasks)
    env.active_after = scheduler.get_active_task()
    finalize_abandoned(env)
    return env


def finalize_abandoned(env):
    """Closes the generators of tasks the computation abandoned (children of a task that failed while
    suspended, tasks left behind by an escaping exception).  The garbage collector would do the same at an
    arbitrary later moment -- possibly in the middle of the next case; doing it here keeps every case a
    function of its input."""
    for rec in list(env.recs.values()) + list(env.probes):
        h = rec.handle
        if h is None or h.is_computed():
            continue
        g = getattr(h, "_generator", None)
        if g is not None:
            rec.closing = True
            try:
                g.close()
            except BaseException:
                pass


def event_grammar(env):
    """C05: events are exactly before,body,after per scheduler flush (after also for hard failures); a flush
    body that calls synchronously into asynq may contain complete nested triples"""
    ev = [e for e in env.events if e[1] != "debug"]
    stack = []
    for i, e in enumerate(ev):
        if e[0] == "before":
            stack.append([e[1:], "before"])
        elif e[0] == "body":
            if not stack or stack[-1] != [e[1:], "before"]:
                env.v("C05.events", "flush body of %r ran without a preceding before-flush event (events %r)" % (e[1:], ev[max(0, i - 2):i + 1]))
                return
            stack[-1][1] = "body"
        else:
            if not stack or stack[-1][0] != e[1:] or stack[-1][1] != "body":
                env.v("C05.events", "after-flush event of %r does not close a before,body pair (events %r)" % (e[1:], ev[max(0, i - 3):i + 1]))
                return
            stack.pop()
    if stack:
        env.v("C05.events", "a before-flush event of %r was never followed by its after-flush event" % (stack[-1][0],))


def item_checks(env, got_by_uid=None):
    for it in env.items:
        if it.is_computed() and it.ncomp != 1:
            env.v("C05.item_once", "item %r completion was announced %d times" % (it.uid, it.ncomp))
        if it.batch.is_flushed() and not it.is_computed():
            env.v("C05.answered", "item %r of a flushed batch was left uncomputed" % (it.uid,))
        if it.is_computed():
            act = env.item_action.get(it.uid)
            if act == "ok" and not (it._error is None and it._value == ["v", it.batch.kind, it.arg]):
                env.v("C05.answered", "item %r does not hold the value its flush set" % (it.uid,))
            if act == "errbase" and it._error is not env.excs.get(("itembase", it.uid)):
                env.v("C05.answered", "item %r does not hold the error its flush set" % (it.uid,))
            if act == "err" and it._error is not env.excs.get(("item", it.uid)):
                env.v("C05.answered", "item %r does not hold the error its flush set" % (it.uid,))
            if act == "unset" and not isinstance(it._error, AssertionError):
                env.v("C05.answered", "item %r was left unset by its flush but is not failed with AssertionError" % (it.uid,))
            if isinstance(act, list) and (it._error is None or canon(exc_key(it._error)) != act[1] or it._error is not it.batch._error):
                env.v("C05.answered", "item %r does not hold its batch's flush / cancellation error" % (it.uid,))


def trace(env):
    """What a program can observe (used by metamorphic oracles): outcome, per-task transcripts,
    flush compositions, context events."""
    return {
        "outcome": env.outcome,
        "transcripts": {str(t): r.got for t, r in sorted(env.recs.items())},
        "flushes": env.flushes,
        "ctx": [e for e in env.log if e[0] in ("r", "p")],
    }
