"""Round simulator: an obviously-correct, slow scheduler over the program AST (yield-only programs).

    repeat { let every task that is not waiting run to its next wait;
             if the root is done: stop;
             complete every pending item;  round += 1 }

It yields, for every item, the round in which it is issuable -- hence (single batch kind) the
exact contents of every flush and the critical-path length -- and the outcome/transcripts,
independently of both engine.py and ref.py.  It is NonAsyncContext-aware: a task that, inside
such a block, yields something still incomplete after everything it started has run as far as
possible *without a flush* fails with AssertionError at that point.

Tasks are Python generators that yield (nothing) whenever they have to keep waiting.
"""
from ..common import digest


class _Exc(Exception):
    def __init__(self, key):
        Exception.__init__(self)
        self.key = key


class _Result(Exception):
    pass


class _Killed(Exception):
    """failed by a NonAsyncContext while suspended: the task's own try/except cannot see it"""


class Inst(object):
    def __init__(self, task, parent):
        self.task = task
        self.tid = task["id"]
        self.parent = parent       # Inst awaiting it (tree programs), for scoped reads
        self.gen = None
        self.done = False
        self.out = None
        self.got = []
        self.ov = []               # own override stack: [("sv"|"attr", index, value)]
        self.na = 0                # open NonAsyncContext blocks
        self.wait = None
        self.killed = False


class Sim(object):
    def __init__(self, prog):
        self.prog = prog
        self.inst = {}
        self.defs = {}
        self.pending = []          # item dicts: {"s": leaf, "done": bool, "round": issue round}
        self.rounds = 0
        self.flushed = []          # per round: sorted reprs of item args
        self.flushed_by_kind = []  # per round: {kind: [args]}
        self.order = []
        n = prog.get("nsv", 2)
        self.init = {("sv", i): ["init", i] for i in range(n)}
        self.init.update({("attr", i): ["init-attr", i] for i in range(n)})
        self.deadlock = False

    # ---- values ----------------------------------------------------------------------
    def mat(self, s, me):
        if s is None:
            return ("val", ["ok", None])
        tag = s[0]
        if tag in ("T", "L"):
            return ("agg", tag, [self.mat(x, me) for x in s[1]], None)
        if tag == "D":
            return ("agg", "D", [self.mat(x, me) for k, x in s[1]], [k for k, x in s[1]])
        if tag == "task":
            return ("task", self.start(s[1], me))
        if tag == "ref":
            if s[1] not in self.inst:
                self.start(self.defs[s[1]], me)
            return ("task", self.inst[s[1]])
        if tag == "item":
            it = {"s": s, "done": False, "round": self.rounds}
            self.pending.append(it)
            return ("item", it)
        if tag == "ditem":
            it = {"s": s, "done": False, "round": self.rounds}
            self.pending.append(it)
            return ("item", it)
        if tag == "const":
            return ("val", ["ok", s[1]])
        if tag == "nonef":
            return ("val", ["ok", None])
        if tag == "errfut":
            return ("val", ["exc", ["errfut", s[1]]])
        if tag == "lazy":
            return ("val", ["ok", ["lazy", s[2]]] if s[1] == "ok" else ["exc", ["lazy", s[2]]])
        if tag == "slazy":
            return ("val", ["ok", ["slazy", s[2]]] if s[1] == "ok" else ["exc", ["slazy", s[2]]])
        if tag == "bad":
            return ("val", ["exc", "TypeError"])
        raise AssertionError(tag)

    def ready(self, m):
        k = m[0]
        if k == "val":
            return True
        if k == "agg":
            return all(self.ready(x) for x in m[2])
        if k == "task":
            return m[1].done
        return m[1]["done"]

    def value(self, m):
        k = m[0]
        if k == "val":
            return m[1]
        if k == "task":
            return m[1].out
        if k == "item":
            s = m[1]["s"]
            if s[0] == "ditem":
                return ["ok", s[2]]
            if s[3] == "ok":
                return ["ok", ["v", s[1], s[2]]]
            if s[3] == "err":
                return ["exc", ["item", s[4]]]
            if s[3] == "errbase":
                return ["exc", ["itembase", s[4]]]
            return ["exc", "AssertionError"]
        outs = [self.value(x) for x in m[2]]
        for o in outs:
            if o[0] == "exc":
                return o
        vals = [o[1] for o in outs]
        if m[1] == "T":
            return ["ok", {"$t": vals}]
        if m[1] == "L":
            return ["ok", vals]
        return ["ok", dict(zip(m[3], vals))]

    # ---- scoped reads: innermost override in this task or in the tasks awaiting it ----
    def lookup(self, inst, key):
        while inst is not None:
            for k, i, v in reversed(inst.ov):
                if (k, i) == key:
                    return v
            inst = inst.parent
        return self.init[key]

    # ---- tasks -----------------------------------------------------------------------
    def start(self, task, parent):
        i = self.inst[task["id"]] = Inst(task, parent)
        self.order.append(i.tid)
        i.gen = self.body(i)
        self.step(i)
        return i

    def step(self, i):
        if i.done:
            return False
        try:
            next(i.gen)
            return False
        except StopIteration:
            return True

    def body(self, i):
        try:
            for _ in self.block(i, i.task["body"]):
                yield
            i.out = ["ok", ["tv", i.tid, digest(i.got)]]
        except _Result:
            i.out = ["ok", ["tv", i.tid, digest(i.got)]]
        except _Exc as e:
            i.out = ["exc", e.key]
        except _Killed:
            i.out = ["exc", "AssertionError"]
            i.killed = True
        i.done = True

    def block(self, i, body):
        for st in body:
            op = st["op"]
            if op == "yield":
                w = self.mat(st["y"], i)
                if not self.ready(w):
                    # everything the structure started has already run as far as it can without a
                    # flush (tasks run eagerly when started), so the task has to be suspended
                    if i.na:
                        raise _Killed()
                    i.wait = w
                    while not self.ready(w):
                        yield
                i.wait = None
                o = self.value(w)
                if o[0] == "exc":
                    if not st["catch"]:
                        raise _Exc(o[1])
                    i.got.append(["caught", o[1]])
                else:
                    i.got.append(["ok", o[1]])
            elif op == "with":
                c = st["ctx"]
                if c[0] in ("ov", "attr"):
                    i.ov.append(("sv" if c[0] == "ov" else "attr", c[1], c[2]))
                    try:
                        for _ in self.block(i, st["body"]):
                            yield
                    finally:
                        i.ov.pop()
                elif c[0] == "na":
                    i.na += 1
                    try:
                        for _ in self.block(i, st["body"]):
                            yield
                    finally:
                        i.na -= 1
                elif c[0] == "rec":
                    for _ in self.block(i, st["body"]):
                        yield
                else:
                    raise NotImplementedError(c[0])
            elif op == "try":
                try:
                    for _ in self.block(i, st["body"]):
                        yield
                except _Exc as e:
                    i.got.append(["caught", e.key])
            elif op == "read":
                i.got.append(["read", st["sv"], self.lookup(i, ("sv", st["sv"]))])
            elif op == "readattr":
                i.got.append(["readattr", st["obj"], self.lookup(i, ("attr", st["obj"]))])
            elif op == "raise":
                raise _Exc(["raise", i.tid, st["sid"]])
            elif op == "result":
                raise _Result()
            elif op == "mk":
                self.defs[st["task"]["id"]] = st["task"]
            elif op in ("sync", "cancel", "reyield", "itemvalue", "syncref"):
                raise NotImplementedError("the round simulator does not model %r statements" % (op,))
            else:
                raise AssertionError(op)

    def abandoned(self, i):
        p = i.parent
        while p is not None:
            if p.killed:
                return True
            p = p.parent
        return False

    def settle(self):
        """run every task that can run, until nobody can"""
        changed = True
        while changed:
            changed = False
            for i in list(self.inst.values()):
                if i.done or self.abandoned(i):
                    continue
                if i.wait is None or self.ready(i.wait):
                    self.step(i)
                    changed = True

    def run(self):
        root = self.start(self.prog["root"], None)
        while True:
            self.settle()
            if root.done:
                break
            issued = [p for p in self.pending if not p["done"]]
            if not issued:
                self.deadlock = True
                break
            self.flushed.append(sorted(repr(p["s"][2]) for p in issued))
            by = {}
            for p in issued:
                by.setdefault(p["s"][1], []).append(p["s"][2])
                p["done"] = True
            self.flushed_by_kind.append(by)
            self.rounds += 1
        self.trans = {t: i.got for t, i in self.inst.items()}
        self.outcomes = {t: i.out for t, i in self.inst.items() if i.done}
        return root.out
