"""Oracles shared by the E1 properties."""
import copy

from . import ref as ref_mod
from ..common import digest


def again(prog, env, **kw):
    """The same program once more on the same thread with nothing reset in between: whatever a computation leaves in
    the scheduler, in task or batch classes or in module state must not change what the next one does.  None when
    the first run was aborted or left requests pending (asynq may flush those during the next computation), and
    for half of the programs (cost)."""
    from . import engine
    if env.outcome[0] == "escaped" or int(digest(prog)[-1], 16) % 2:
        return None
    if any(b.items and not b.is_flushed() for b in env.batches):
        return None
    carried = []
    root = env.recs.get(prog["root"]["id"])
    h = root.handle if root is not None else None
    if h is not None and h.is_computed():
        got = engine.carry_probe(h)
        if h._error is not None:
            if not (got[0] == "exc" and got[1] is h._error):
                carried.append("a later computation yields the (failed) root task of this one: it received %r instead of having the stored error %r raised at the yield" % (got, h._error))
        elif not (got[0] == "ok" and got[1] is h._value):
            carried.append("a later computation yields the (completed) root task of this one: it received %r, the stored value is %r" % (got, h._value))
    engine.interlude()
    pre = getattr(env, "pre_next", None)
    if pre is not None:
        # the root task object of this second run was created before the first run started
        env_b = engine.run_program(pre.prog, reset=False, prepared=pre, **kw)
    else:
        env_b = engine.run_program(copy.deepcopy(prog), reset=False, **kw)
    env_b.carried = carried
    return env_b


def first(prog, **kw):
    """the first run; for some programs the second run's root task object is created beforehand"""
    from . import engine
    d = int(digest(prog)[-2], 16)
    if prog.get("conv", "value") == "value" and d % 2 and not int(digest(prog)[-1], 16) % 2:
        engine.reset_process_state()
        if d % 4 == 1:
            engine.prelude()     # the thread's scheduler has already flushed once, before anybody subscribed to its hooks
        p2 = copy.deepcopy(prog)
        pre = engine.prepare(p2)
        env = engine.run_program(prog, reset=False, **kw)
        env.pre_next = pre
        return env
    return engine.run_program(prog, **kw)


def second(viol, env_b=None, clause=None):
    out = [(c, m + "   [second run of the program on the same scheduler, nothing reset in between]") for c, m in viol]
    if env_b is not None and clause:
        out += [(clause, m) for m in getattr(env_b, "carried", [])]
    return out


def reference(prog, env):
    r = ref_mod.Ref(prog, env.item_action)
    return r, r.run()


def compare_with_reference(env, r, exp, clause):
    """transcripts of every task the sequential reference evaluates, then the root outcome"""
    out = []
    for tid, got in r.trans.items():
        rec = env.recs.get(tid)
        if rec is None or not rec.started:
            out.append((clause, "task %r is evaluated by the sequential reference but never ran (root outcome %r)" % (tid, env.outcome)))
            return out
        if rec.got != got:
            out.append((clause, "task %r observed %r, sequential evaluation gives %r" % (tid, rec.got, got)))
            return out
    for tid, rec in env.recs.items():
        if rec.started and tid not in r.trans:
            out.append((clause, "task %r ran but the sequential reference never evaluates it" % (tid,)))
            return out
    if env.outcome != exp:
        out.append((clause, "root outcome %r, sequential evaluation gives %r" % (env.outcome, exp)))
    return out


def clauses(env, prefix):
    """monitor reports of one property"""
    seen = set()
    out = []
    for c, m in env.viol:
        if c.startswith(prefix) or c == "HARNESS":
            if c not in seen:
                seen.add(c)
                out.append((c, m))
    return out


def lifo(env):
    """C07: whatever was resumed last is paused first"""
    stack = []
    for ev in env.log:
        if ev[0] == "r":
            stack.append(ev[1])
        elif ev[0] == "p":
            if not stack or stack[-1] != ev[1]:
                return [("C07.nesting", "context %r paused while %r was resumed more recently (open: %r)" % (ev[1], stack[-1] if stack else None, stack[-4:]))]
            stack.pop()
    return []


def alternation(env):
    out = []
    for c in env.ctxs.values():
        e = "".join(c.ev)
        if not e:
            continue
        # resume at entry, then strict alternation; leaving the block (X) happens while resumed and is followed by exactly one
        # pause and nothing else; a block that was never left (its task / generator was abandoned inside it) may end either way
        import re
        if not re.match(r"^r(pr)*Xp$" if "X" in e else r"^r(pr)*p?$", e):
            out.append(("C06.alternate", "context %r saw the sequence %r of resume (r) / pause (p) / block exit (X): must start with a resume at entry, alternate, "
                        "and end with the one pause of the exit" % (c.cid, e)))
            break
    return out


def restored(env):
    out = []
    for i, sv in enumerate(env.svs):
        if sv.get() != ["init", i]:
            out.append(("C07.restore", "scoped value %d is %r after the computation ended, was %r before" % (i, sv.get(), ["init", i])))
    for i, o in enumerate(env.objs):
        if o.attr != ["init-attr", i]:
            out.append(("C07.restore", "overridden attribute %d is %r after the computation ended" % (i, o.attr)))
    return out
