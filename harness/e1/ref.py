"""Reference interpreter: plain sequential, depth-first recursion over the program AST.

No generators, no scheduler, written independently of engine.py.  ``Ref(prog, item_action)``
evaluates the root and records, for every task it evaluates, the transcript that task must
produce.  A yielded structure is evaluated member by member, left to right, *all* members,
and yields its value in the same shape or the first failure in structure order.

``item_action`` maps item uid -> what the (harness-written) flush body did to that item
("ok" | "err" | "unset" | ["flusherr", kind, no]); without it the item's declared outcome
is used (valid when no flush fault is injected).
"""
from ..common import digest


class _Exc(Exception):
    def __init__(self, key):
        Exception.__init__(self)
        self.key = key


class _Result(Exception):
    pass


def jkey(k):
    if isinstance(k, (tuple, list)):
        return [jkey(x) for x in k]
    return k


class Ref(object):
    def __init__(self, prog, item_action=None):
        self.prog = prog
        self.item_action = item_action
        self.trans = {}        # tid -> transcript
        self.outcomes = {}     # tid -> ["ok", v] | ["exc", key]
        self.gens = {}         # (tid, gid) -> Values an async generator iterated by hand has not delivered yet
        self.defs = {}         # tid -> (task, scope) created by "mk", not yet evaluated
        self.order = []        # tids in evaluation (sequential start) order
        self.ystructs = {}
        self.probe_value = "sync-ok"   # what a plain synchronous call of an @asynq() function gives inside a body
        n = prog.get("nsv", 2)
        self.init_scope = {"sv": {i: ["init", i] for i in range(n)}, "attr": {i: ["init-attr", i] for i in range(n)}}

    def run(self):
        return self.task(self.prog["root"], self.init_scope)

    # ---- tasks ------------------------------------------------------------------
    def task(self, t, scope):
        tid = t["id"]
        if tid in self.outcomes:
            return self.outcomes[tid]
        got = self.trans[tid] = []
        self.order.append(tid)
        scope = {"sv": dict(scope["sv"]), "attr": dict(scope["attr"])}
        try:
            self.block(t, t["body"], got, scope)
            out = ["ok", ["tv", tid, digest(got)]]
        except _Result:
            out = ["ok", ["tv", tid, digest(got)]]
        except _Exc as e:
            out = ["exc", e.key]
        self.outcomes[tid] = out
        return out

    def block(self, t, body, got, scope):
        tid = t["id"]
        for st in body:
            op = st["op"]
            if op in ("yield", "reyield"):
                if op == "yield":
                    self.ystructs[(tid, st.get("yid"))] = st["y"]
                # yielding the same object again is, sequentially, evaluating the same (memoised) futures again
                o = self.struct(self.ystructs[(tid, st["yid"])] if op == "reyield" else st["y"], scope)
                if o[0] == "exc":
                    if not st["catch"]:
                        raise _Exc(o[1])
                    got.append(["caught", o[1]])
                else:
                    got.append(["ok", o[1]])
            elif op == "with":
                c = st["ctx"]
                if c[0] == "ov":
                    old = scope["sv"][c[1]]
                    scope["sv"][c[1]] = c[2]
                    try:
                        self.block(t, st["body"], got, scope)
                    finally:
                        scope["sv"][c[1]] = old
                elif c[0] == "attr":
                    old = scope["attr"][c[1]]
                    scope["attr"][c[1]] = c[2]
                    try:
                        self.block(t, st["body"], got, scope)
                    finally:
                        scope["attr"][c[1]] = old
                elif c[0] == "rec":
                    self.block(t, st["body"], got, scope)
                else:
                    raise NotImplementedError("the sequential reference does not model %r contexts" % (c[0],))
            elif op == "try":
                try:
                    self.block(t, st["body"], got, scope)
                except _Exc as e:
                    got.append(["caught", e.key])
            elif op == "sync":
                o = self.task(st["task"], scope)
                if o[0] == "ok":
                    got.append(["sync", o[1]])
                elif st["catch"]:
                    got.append(["syncexc", o[1]])
                else:
                    raise _Exc(o[1])
            elif op == "read":
                got.append(["read", st["sv"], scope["sv"][st["sv"]]])
            elif op == "readattr":
                got.append(["readattr", st["obj"], scope["attr"][st["obj"]]])
            elif op == "raise":
                raise _Exc(["raise", tid, st["sid"]])
            elif op == "result":
                raise _Result()
            elif op == "syncref":
                o = self.struct(["ref", st["tid"]], scope)
                if o[0] == "ok":
                    got.append(["sync", o[1]])
                elif st["catch"]:
                    got.append(["syncexc", o[1]])
                else:
                    raise _Exc(o[1])
            elif op == "itemvalue":
                o = self.struct(st["item"], scope)
                if o[0] == "ok":
                    got.append(["ival", o[1]])
                elif st["catch"]:
                    got.append(["ivalexc", o[1]])
                else:
                    raise _Exc(o[1])
            elif op == "probe":
                got.append(["probe", self.probe_value])
            elif op == "cancel":
                pass
            elif op == "genstart":
                self.gens[(tid, st["gid"])] = (st, [["g", i, ["v", st["kind"], i]] for i in range(st["n"] + (1 if st["mode"] == "span" else 0))])
            elif op == "gennext":
                rest = self.gens.get((tid, st["gid"]), (None, []))[1]
                rd = [scope["sv"][0]] if self.prog.get("tool_reads") else []     # the body runs in the scope of whoever advances it
                got.append(["gen", [v + rd for v in rest[:st["count"]]]])
                del rest[:st["count"]]
            elif op == "mk":
                self.defs[st["task"]["id"]] = (st["task"], {"sv": dict(scope["sv"]), "attr": dict(scope["attr"])})
            else:
                raise AssertionError(op)

    # ---- library tools: what the documented behaviour of each tool gives sequentially ------------
    def tool(self, s, scope):
        name = s[1]
        iv = lambda kind, arg: ["v", kind, arg]
        rd = [scope["sv"][0]] if self.prog.get("tool_reads") else []      # what a tool body reads: the caller's dynamic scope
        if name == "dd":
            k, kind = s[2], s[3]
            tag = "dd-twin" if len(s) > 4 and s[4] else "dd"
            if k % 4 == 3:
                return ["exc", [tag, k]]
            if k % 4 == 2:
                raise NotImplementedError("the outcome of a deduplicated body re-entering itself from a failure handler is not specified")
            return ["ok", [tag, k, iv(kind, k), [tag + "-inner", k] if k % 4 == 1 else None]]
        if name == "alru":
            return ["ok", ["alru", s[2], iv(s[3], s[2])]]
        if name == "agen":
            return ["ok", [["g", i, iv(s[3], i)] + rd for i in range(s[2] + (1 if s[5] == "span" else 0))]]
        if name in ("amap", "asorted", "amin", "amax", "afilter"):
            k, n, kind = s[2], s[3], s[4]
            xs = list(range(k + n - 1, k - 1, -1))
            if name == "amap":
                return ["ok", [[x] + rd for x in xs] if rd else list(xs)]
            if name == "afilter":
                return ["ok", [x for x in xs if x % 2 == 0]]
            if name == "asorted":
                return ["ok", sorted(xs)]
            if not xs:
                return ["exc", "ValueError"]
            return ["ok", min(xs) if name == "amin" else max(xs)]
        if name == "retry":
            return ["ok", ["retry", s[2], 2, iv(s[3], s[2])] + rd]
        if name == "cwc":
            if s[2] % 4 == 2:
                return ["exc", ["cwc", s[2]]]        # the function fails inside the context: the failure is the call's failure
            if s[2] % 4 == 3:
                return ["ok", None]                    # ... unless the context suppresses it, as a with-block would
            return ["ok", ["plain", s[2], iv(s[3], s[2])] + rd]
        raise AssertionError(name)

    # ---- structures ---------------------------------------------------------------
    def struct(self, s, scope):
        if s is None:
            return ["ok", None]
        tag = s[0]
        if tag in ("T", "L"):
            outs = [self.struct(x, scope) for x in s[1]]
            for o in outs:
                if o[0] == "exc":
                    return o
            vals = [o[1] for o in outs]
            return ["ok", {"$t": vals} if tag == "T" else vals]
        if tag == "D":
            outs = [(k, self.struct(x, scope)) for k, x in s[1]]
            for k, o in outs:
                if o[0] == "exc":
                    return o
            return ["ok", {k: o[1] for k, o in outs}]
        if tag == "task":
            return self.task(s[1], scope)
        if tag == "ref":
            if s[1] in self.outcomes:
                return self.outcomes[s[1]]
            t, sc = self.defs[s[1]]
            return self.task(t, sc)
        if tag == "item":
            act = s[3] if self.item_action is None else self.item_action.get(s[4], s[3])
            if act == "ok":
                return ["ok", ["v", s[1], s[2]]]
            if act == "err":
                return ["exc", ["item", s[4]]]
            if act == "errbase":
                return ["exc", ["itembase", s[4]]]
            if act == "unset":
                return ["exc", "AssertionError"]
            return ["exc", act[1]]
        if tag == "ditem":
            return ["ok", s[2]]
        if tag == "const":
            return ["ok", s[1]]
        if tag == "nonef":
            return ["ok", None]
        if tag == "errfut":
            return ["exc", ["errfut", s[1]]]
        if tag == "lazy":
            return ["ok", ["lazy", s[2]]] if s[1] == "ok" else ["exc", ["lazy", s[2]]]
        if tag == "slazy":
            return ["ok", ["slazy", s[2]]] if s[1] == "ok" else ["exc", ["slazy", s[2]]]
        if tag == "tool":
            return self.tool(s, scope)
        if tag == "bad":
            return ["exc", "TypeError"]
        if tag == "afn":
            return ["ok", ["afn", s[1]]]
        if tag == "excval":
            return ["ok", {"$obj": "ValueError(%d)" % s[1]}]      # a *value* that happens to be an exception instance
        if tag == "pfn":
            return ["ok", ["pfn", s[1]]]
        if tag == "acall":
            return ["ok", ["ac", s[1], s[2]]]
        raise AssertionError(tag)
