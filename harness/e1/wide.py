"""Programs at integer-width boundaries (2**7, 2**8, 2**15, 2**16 members / contexts / stack entries).

The compiled build gives C types to loop indices, lengths and counters; a declaration that is too
narrow only shows for large but perfectly legal sizes.  A case is a small spec {"shape", "n", ...};
``expand`` turns it into an ordinary E1 program, so the usual oracles apply unchanged."""


def _task(tid, body, via="return"):
    return {"id": tid, "body": body, "via": via}


def _y(y, catch=False):
    return {"op": "yield", "y": y, "catch": catch}


def expand(spec):
    shape, n = spec["shape"], spec["n"]
    prog = {"prio": {}, "faults": [], "conv": spec.get("conv", "value"), "nsv": 2, "shape": "wide:" + shape}
    if shape in ("tuple-consts", "list-consts", "dict-consts"):
        members = [["const", i % 7] for i in range(n)]
        y = {"tuple-consts": ["T", members], "list-consts": ["L", members], "dict-consts": ["D", [["k%d" % i, m] for i, m in enumerate(members)]]}[shape]
        prog["root"] = _task(0, [_y(y), _y(["T", [["item", "a", 1, "ok", 0], y]])])
    elif shape in ("tuple-consts-batchfree", "list-consts-batchfree"):
        members = [["const", i % 7] for i in range(n)]
        prog["root"] = _task(0, [_y(["T" if shape.startswith("tuple") else "L", members]), _y(["D", [["p", ["T", members]], ["q", ["const", 1]]]])])
    elif shape == "list-items":
        prog["root"] = _task(0, [_y(["L", [["item", "a", i % 5, "ok", i] for i in range(n)]])])
    elif shape == "fan-tasks":
        kids = [["task", _task(i + 1, [_y(["item", "a", i % 5, "ok", i])])] for i in range(n)]
        prog["root"] = _task(0, [_y([spec.get("agg", "L"), kids])])
    elif shape == "fan-one-fails":
        # one member fails at once; every sibling needs a flush: the failure is delivered after all of them
        p = spec.get("pos", 0) % n
        kids = []
        for i in range(n):
            if i == p:
                kids.append(["task", _task(i + 1, [{"op": "raise", "sid": 0}])])
            else:
                kids.append(["task", _task(i + 1, [_y(["item", "a", i % 5, "ok", i])])])
        prog["root"] = _task(0, [_y([spec.get("agg", "L"), kids], catch=True), _y(["item", "a", 0, "ok", n + 1])])
    elif shape == "fan-sync-first":
        # the leftmost of n sibling tasks runs first, with the other n-1 already on the scheduler's stack, and calls
        # synchronously into asynq
        inner = _task(n + 1, [_y(["item", "a", 1, "ok", 0])])
        first = _task(1, [{"op": "sync", "task": inner, "how": "call", "catch": False}] + ([_y(["item", "a", 2, "ok", 1])] if spec.get("tail", True) else []))
        kids = [["task", first]] + [["task", _task(i + 2, [])] for i in range(n - 1)]
        prog["root"] = _task(0, [_y(["L", kids])])
    elif shape == "many-contexts":
        # one task holds n overrides of the same value at once and blocks; a sibling that is not awaited by it reads
        inner = [{"op": "read", "sv": 0}, _y(["item", "a", 1, "ok", 0]), {"op": "read", "sv": 0}]
        body = inner
        for i in range(n):
            body = [{"op": "with", "ctx": ["rec", n - i] if spec.get("ctx") == "rec" else ["ov", 0, ["ov", n - i]], "body": body}]
        holder = _task(1, body + [{"op": "read", "sv": 0}])
        reader = _task(2, [{"op": "read", "sv": 0}, _y(["item", "b", 1, "ok", 1]), {"op": "read", "sv": 0}, _y(["item", "a", 2, "ok", 2]), {"op": "read", "sv": 0}])
        prog["root"] = _task(0, [_y(["L", [["task", holder], ["task", reader]]]), {"op": "read", "sv": 0}])
        prog["prio"] = {"a": [0], "b": [1]}
    else:
        raise AssertionError(shape)
    return prog


def specs(shapes, quick):
    small = [127, 128, 255, 256, 257, 300]
    big = [32767, 32768, 32769, 65535, 65536, 70000]
    out = []
    for sh in shapes:
        if sh in ("tuple-consts", "list-consts", "dict-consts", "tuple-consts-batchfree", "list-consts-batchfree"):
            sizes = small + ([32769] if quick else big)
        elif sh == "many-contexts":
            sizes = [5, 127, 128, 130, 255, 256, 300]
        else:
            sizes = [300, 32767, 32769, 65537] if quick else [300] + big + [140000]
        for n in sizes:
            if sh == "fan-one-fails":
                for pos in (0, n // 2):
                    out.append({"shape": sh, "n": n, "pos": pos, "agg": "L" if pos == 0 else "T"})
            elif sh == "fan-tasks":
                out.append({"shape": sh, "n": n, "agg": "L"})
                out.append({"shape": sh, "n": n, "agg": "T"})
            elif sh == "fan-sync-first":
                out.append({"shape": sh, "n": n, "tail": True})
                out.append({"shape": sh, "n": n, "tail": False})
            else:
                out.append({"shape": sh, "n": n})
    return out
