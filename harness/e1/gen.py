"""Hypothesis generator of E1 programs: a *shape* is drawn first, then decorated.

An unbiased recursive grammar reaches few multi-flush / multi-kind / re-entrant cases (measured
in prototypes), so the generator constructs programs top-down from shape templates -- chain,
tree, comb with unequal depths, diamond/DAG, re-entry comb, staggered callers, free-form -- and
then decorates them with contexts, reads, try blocks, failures, early results and sharing.
No assume()/filter(): everything is construction.
"""
from hypothesis import strategies as st


class Cfg(object):
    def __init__(self, **kw):
        self.kinds = ["a", "b", "c"]
        self.max_tasks = 12
        self.max_depth = 3
        self.sync = False
        self.ctx = ()            # subset of ("rec", "ov", "attr")
        self.na = False
        self.failctx = False
        self.reads = False
        self.faults = True       # failing leaves, raise statements
        self.lazy_raise = True
        self.agen_modes = ("plain", "await", "value", "span", "span")   # where generator bodies open recording blocks
        self.premade = False        # some programs: the root's leading mk tasks are created at top level before the computation
        self.tool_reads = False     # C07: tool bodies read scoped value 0 after their request came back
        self.tools = ()             # library tools used as leaves: subset of TOOLS ("dd2" = deduplicated bodies that re-enter themselves from a failure handler)
        self.shared_lazy = 0        # weight of ["slazy", mode, k] leaves: the same lazy Future object in several places
        self.bad = True
        self.unset = True
        self.flush_faults = ()   # subset of ("raise", "hard")
        self.dag = False
        self.orphans = False
        self.try_ = True
        self.early_result = True
        self.ditem = False
        self.prio = "any"        # "any" | "tiefree" | "default"
        self.convs = ("value",)
        self.shapes = ("chain", "tree", "comb", "diamond", "stagger", "free", "free")
        self.catch_p = 3         # 1 in catch_p yields has catch=True
        self.ok_w = 14           # weight of "ok" among item outcomes (err and unset weigh 1 each)
        self.fault_leaf_w = 1    # weight of each failing non-item leaf kind among plain leaves (items weigh 6)
        self.empty_structs = True
        self.excval = False      # futures whose value is an exception instance (must be delivered, not raised)
        self.itemvalue = False   # statements that call item.value() directly inside a body (out-of-band flush of the item's batch)
        self.cancels = False     # statements that cancel the pending batch of a kind (a client discarding its batch)
        self.reyield = False     # a later statement yields the very same object an earlier yield statement yielded
        self.batch_free = False  # C15: only constant futures / None / plain tasks as leaves
        self.probes = False      # C15: statements that try a plain synchronous call of an @asynq() function
        self.__dict__.update(kw)


class S(object):
    """per-program generation state"""

    def __init__(self, d, cfg):
        self.d = d
        self.cfg = cfg
        self.ntid = 0
        self.nuid = 0
        self.ncid = 0
        self.nsid = 0
        self.budget = cfg.max_tasks

    def tid(self):
        self.ntid += 1
        self.budget -= 1
        return self.ntid - 1

    def uid(self):
        self.nuid += 1
        return self.nuid - 1

    def cid(self):
        self.ncid += 1
        return self.ncid - 1

    def sid(self):
        self.nsid += 1
        return self.nsid - 1

    def int(self, lo, hi):
        return self.d(st.integers(lo, hi))

    def pick(self, seq):
        return self.d(st.sampled_from(list(seq)))

    def chance(self, k):
        """true once in k"""
        return self.d(st.integers(0, k - 1)) == 0


# ---- leaves and structures --------------------------------------------------------

def item(s, kind=None, outcome=None):
    cfg = s.cfg
    if cfg.batch_free:
        return s.pick([["const", s.int(0, 9)], ["const", s.int(0, 9)], ["afn", s.int(0, 3)], ["nonef"], None,
                       ["excval", s.int(0, 3)], ["pfn", s.int(0, 3)], ["acall", s.int(0, 2), s.int(0, 3)]])
    if kind is None:
        kind = s.pick(cfg.kinds)
    if outcome is None:
        outs = ["ok"] * cfg.ok_w
        if cfg.faults:
            outs += ["err"]
            if cfg.lazy_raise:          # (the same switch that allows the other exotic failure kinds)
                outs += ["errbase"]
            if cfg.unset:
                outs += ["unset"]
        outcome = s.pick(outs)
    return ["item", kind, s.int(0, 9), outcome, s.uid()]


def plain_leaf(s):
    """a leaf that is not a task"""
    cfg = s.cfg
    if cfg.batch_free:
        return item(s)
    opts = ["item"] * 6 + ["const", "none", "nonef", "lazyok"]
    if cfg.excval:
        opts += ["excval"]
    if cfg.ditem:
        opts += ["ditem"] * 2
    if cfg.shared_lazy:
        opts += ["slazy"] * cfg.shared_lazy
    if cfg.tools:
        opts += ["tool"] * 3
    if cfg.faults:
        opts += ["errfut"] * cfg.fault_leaf_w
        if cfg.lazy_raise:
            opts += ["lazyraise"] * cfg.fault_leaf_w
        if cfg.bad:
            opts += ["bad"] * cfg.fault_leaf_w
    k = s.pick(opts)
    if k == "item":
        return item(s)
    if k == "const":
        return ["const", s.int(0, 3)]
    if k == "none":
        return None
    if k == "nonef":
        return ["nonef"]
    if k == "excval":
        return ["excval", s.int(0, 3)]
    if k == "lazyok":
        return ["lazy", "ok", s.uid()]
    if k == "tool":
        return tool_leaf(s)
    if k == "slazy":
        n = s.int(0, 2)
        return ["slazy", "raise" if n == 2 and cfg.faults and cfg.lazy_raise else "ok", n]
    if k == "ditem":
        return ["ditem", "dbg", s.int(0, 3), s.uid()]
    if k == "errfut":
        return ["errfut", s.uid()]
    if k == "lazyraise":
        return ["lazy", "raise", s.uid()]
    return ["bad", s.pick([0, 7, "x"])]


TOOLS = ("dd", "alru", "agen", "amap", "asorted", "amin", "amax", "afilter", "retry", "cwc")


def tool_leaf(s):
    cfg = s.cfg
    name = s.pick([t for t in cfg.tools if t != "dd2"])
    kind = s.pick(cfg.kinds)
    if name == "dd":
        modes = [0, 0, 1] + ([3] if cfg.faults else []) + ([2, 2] if "dd2" in cfg.tools else [])
        k = s.pick(modes) + 4 * s.int(0, 1)
        # (the batch kind is a function of the key, so that equal keys are equal calls)
        return ["tool", "dd", k, cfg.kinds[k % len(cfg.kinds)], s.pick([0, 0, 1])]
    if name == "alru":
        k = s.int(0, 2)
        return ["tool", "alru", k, cfg.kinds[k % len(cfg.kinds)]]
    if name == "agen":
        n = s.int(0, 3)
        cid0 = s.cid()
        for _ in range(max(0, n - 1)):
            s.cid()
        return ["tool", "agen", n, kind, cid0, s.pick(cfg.agen_modes if cfg.ctx else ["plain"])]
    if name in ("amap", "asorted", "amin", "amax", "afilter"):
        return ["tool", name, s.int(0, 3), s.int(0 if name in ("amap", "asorted", "afilter") else 1, 3), kind]
    if name == "retry":
        return ["tool", "retry", s.uid(), kind]
    return ["tool", "cwc", s.pick([0, 1, 2, 3] if cfg.faults else [0, 1]), kind, s.cid()]


def struct(s, depth, sdepth=0):
    """free-form yield structure"""
    cfg = s.cfg
    r = s.int(0, 9)
    if sdepth >= 2 or r < 4:
        if depth < cfg.max_depth and s.budget > 0 and s.chance(2):
            return ["task", task(s, depth + 1)]
        return plain_leaf(s)
    lo = 0 if cfg.empty_structs else 1
    n = s.int(lo, 3)
    if r < 6:
        return ["T", [struct(s, depth, sdepth + 1) for _ in range(n)]]
    if r < 9:
        return ["L", [struct(s, depth, sdepth + 1) for _ in range(n)]]
    keys = ["x", "y", "z"][:n]
    return ["D", [[k, struct(s, depth, sdepth + 1)] for k in keys]]


def ystmt(s, y):
    return {"op": "yield", "y": y, "catch": s.chance(s.cfg.catch_p)}


def mktask(s, body, tid=None):
    return {"id": s.tid() if tid is None else tid, "body": body, "via": s.pick(["return", "return", "result"])}


def task(s, depth):
    """free-form task"""
    cfg = s.cfg
    tid = s.tid()
    body = []
    for _ in range(s.int(0, 3)):
        if cfg.sync and depth < cfg.max_depth and s.budget > 0 and s.chance(5):
            body.append({"op": "sync", "task": task(s, depth + 1), "how": s.pick(["call", "value"]), "catch": s.chance(2)})
        else:
            body.append(ystmt(s, struct(s, depth)))
    return mktask(s, body, tid)


# ---- shapes ---------------------------------------------------------------------------

def seq_items(s, n, kind=None):
    return [ystmt(s, item(s, kind)) for _ in range(n)]


def shape_chain(s):
    depth = s.int(2, 6)
    inner = mktask(s, seq_items(s, s.int(1, 2)))
    for _ in range(depth - 1):
        body = []
        if s.chance(2):
            body += seq_items(s, 1)
        wrap = s.pick(["bare", "T", "L", "D"])
        leaf = ["task", inner]
        if wrap == "T":
            leaf = ["T", [leaf, item(s)] if s.chance(2) else [leaf]]
        elif wrap == "L":
            leaf = ["L", [item(s), leaf] if s.chance(2) else [leaf]]
        elif wrap == "D":
            leaf = ["D", [["x", leaf]]]
        body.append(ystmt(s, leaf))
        if s.chance(2):
            body += seq_items(s, 1)
        inner = mktask(s, body)
    return inner


def shape_tree(s):
    def node(depth):
        if depth == 0 or s.budget <= 0:
            return mktask(s, seq_items(s, s.int(1, 2)))
        fan = s.int(2, 3)
        kids = [["task", node(depth - 1)] for _ in range(fan)]
        if s.chance(3):
            kids.insert(s.int(0, len(kids)), plain_leaf(s))
        tag = s.pick(["L", "L", "T", "D"])
        y = ["D", [[k, x] for k, x in zip("xyzw", kids)]] if tag == "D" else [tag, kids]
        body = [ystmt(s, y)]
        if s.chance(3):
            body += seq_items(s, 1)
        return mktask(s, body)
    return node(s.int(1, 2))


def shape_comb(s):
    k = s.int(2, 5)
    teeth = []
    same_kind = s.pick(s.cfg.kinds) if s.chance(2) else None
    for _ in range(k):
        teeth.append(["task", mktask(s, seq_items(s, s.int(1, 4), same_kind))])
    body = [ystmt(s, [s.pick(["L", "T"]), teeth])]
    return mktask(s, body)


def shape_diamond(s):
    cfg = s.cfg
    shared = mktask(s, seq_items(s, s.int(1, 2)))
    n = s.int(2, 3)
    users = []
    for _ in range(n):
        body = []
        if s.chance(2):
            body += seq_items(s, s.int(1, 2))
        ref = ["ref", shared["id"]]
        y = s.pick([ref, ["T", [ref, item(s)]], ["L", [item(s), ref]]])
        body.append(ystmt(s, y))
        users.append(["task", mktask(s, body)])
    root_body = [{"op": "mk", "task": shared}, ystmt(s, ["L", users])]
    if s.chance(2):
        # an already computed future yielded again
        root_body.append(ystmt(s, ["T", [["ref", shared["id"]], item(s)]]))
    if cfg.orphans and s.chance(2):
        root_body.insert(0, {"op": "mk", "task": mktask(s, seq_items(s, 1))})
    return mktask(s, root_body)


def shape_reentry(s):
    """re-entry comb: siblings blocked on batch items, then tasks that call synchronously into
    asynq; the inner flushes drain (or do not drain) what the outer siblings wait for."""
    cfg = s.cfg
    nb = s.int(1, 3)
    ns = s.int(1, 2)
    kind = s.pick(cfg.kinds)
    members = []
    for _ in range(nb):
        members.append(["task", mktask(s, seq_items(s, s.int(1, 2), kind if s.chance(2) else None))])
    for _ in range(ns):
        inner = mktask(s, seq_items(s, s.int(1, 2), kind if s.chance(2) else None))
        if s.chance(3):
            inner = mktask(s, [ystmt(s, ["L", [["task", inner], item(s)]])])
        body = []
        if s.chance(3):
            body += seq_items(s, 1)
        body.append({"op": "sync", "task": inner, "how": s.pick(["call", "value"]), "catch": s.chance(2)})
        if s.chance(2):
            body += seq_items(s, 1, kind if s.chance(2) else None)
        members.append(["task", mktask(s, body)])
    if s.chance(4):
        a = s.int(0, len(members) - 1)
        members.append(members.pop(a))
    root_body = [ystmt(s, ["L", members])]
    if s.chance(3):
        root_body.insert(0, {"op": "sync", "task": mktask(s, seq_items(s, 1)), "how": "call", "catch": True})
    return mktask(s, root_body)


def shape_stagger(s):
    """callers that wait w rounds, then act"""
    k = s.int(2, 4)
    kind = s.pick(s.cfg.kinds)
    members = []
    for _ in range(k):
        body = seq_items(s, s.int(0, 3), kind, )
        act = seq_items(s, s.int(1, 2))
        body += act
        members.append(["task", mktask(s, body)])
    return mktask(s, [ystmt(s, ["L", members])])


def shape_ctxcomb(s):
    """several concurrently pending tasks, each inside a context block that spans flushes, with reads
    before / between / after the yields, some nested: overrides of the same value overlap in time"""
    cfg = s.cfg
    allowed = [c for c in cfg.ctx] or ["rec"]
    k = s.int(2, 4)
    kind = s.pick(cfg.kinds)
    members = []

    def rd():
        if not cfg.reads:
            return []
        return [{"op": "read", "sv": s.int(0, 1)}] if s.chance(2) else []
    for _ in range(k):
        inner = rd() + seq_items(s, 1, kind if s.chance(2) else None) + rd()
        if s.chance(2):
            inner += seq_items(s, 1, kind if s.chance(2) else None) + rd()
        if s.chance(3) and s.budget > 0:
            child = mktask(s, rd() + seq_items(s, 1) + rd())
            inner.append(ystmt(s, ["task", child]))
            inner += rd()
        block = {"op": "with", "ctx": gen_ctx(s, allowed), "body": inner}
        if s.chance(3):
            block = {"op": "with", "ctx": gen_ctx(s, allowed), "body": rd() + [block] + rd()}
        body = seq_items(s, s.int(0, 2), kind) + rd() + [block] + rd()
        members.append(["task", mktask(s, body)])
    root_body = rd() + [ystmt(s, ["L", members])] + rd()
    if s.chance(2):
        root_body = [{"op": "with", "ctx": gen_ctx(s, allowed), "body": root_body}] + rd()
    return mktask(s, root_body)


SHAPES = {
    "chain": shape_chain, "tree": shape_tree, "comb": shape_comb, "diamond": shape_diamond,
    "reentry": shape_reentry, "stagger": shape_stagger, "ctxcomb": shape_ctxcomb, "free": lambda s: task(s, 0),
}


# ---- decoration ---------------------------------------------------------------------------

def tasks_of(root):
    from .engine import all_tasks
    return list(all_tasks(root))


def gen_ctx(s, allowed):
    k = s.pick(allowed)
    if k == "rec":
        return ["rec", s.cid()]
    if k == "ov":
        c = s.cid()
        return ["ov", s.int(0, 1), s.pick([["ov", c], ["ov", c], ["ov", c], None, 0])]     # None / falsy values are legal overrides
    if k == "attr":
        c = s.cid()
        return ["attr", s.int(0, 1), s.pick([["ova", c], ["ova", c], ["ova", c], None, 0])]
    if k == "na":
        return ["na", s.cid()]
    if k == "fail":
        a = s.pick([None, 1, 2, 3])
        b = s.pick([None, 1, 2]) if a is not None else s.pick([1, 2, 3])
        return ["fail", s.cid(), a, b, s.chance(4)]
    raise AssertionError(k)


def wrap_run(s, body, stmt_of):
    """replace a contiguous run body[i:j] by one statement built from it"""
    if not body:
        return
    i = s.int(0, len(body) - 1)
    j = s.int(i + 1, len(body))
    body[i:j] = [stmt_of(body[i:j])]


def decorate_task(s, t, shared_ids):
    cfg = s.cfg
    body = t["body"]
    allowed = list(cfg.ctx)
    if cfg.na:
        allowed += ["na"]
    if cfg.failctx:
        allowed += ["fail"]
    if allowed:
        for _ in range(2):
            if body and s.chance(3):
                c = gen_ctx(s, allowed)
                wrap_run(s, body, lambda run: {"op": "with", "ctx": c, "body": run})
    if allowed and cfg.try_ and cfg.faults and s.chance(8):
        # a block that is left by an exception which the same task handles, after which the task carries on
        c = gen_ctx(s, [a for a in allowed if a != "fail"] or allowed)
        inner = [{"op": "raise", "sid": s.sid()}] if s.chance(2) or not cfg.lazy_raise else [{"op": "yield", "y": ["errfut", s.uid()], "catch": False}]
        pos_body = pick_block(s, body)
        pos_body.insert(s.int(0, len(pos_body)), {"op": "try", "body": [{"op": "with", "ctx": c, "body": inner}]})
    if cfg.try_ and cfg.faults and body and s.chance(6):
        wrap_run(s, body, lambda run: {"op": "try", "body": run})
    if cfg.faults and s.chance(12):
        pos_body = pick_block(s, body)
        pos_body.insert(s.int(0, len(pos_body)), {"op": "raise", "sid": s.sid()})
    if cfg.itemvalue and s.chance(6):
        pos_body = pick_block(s, body)
        pos_body.insert(s.int(0, len(pos_body)), {"op": "itemvalue", "item": item(s), "catch": s.chance(2)})
    if cfg.cancels and not getattr(s, "has_tools", False) and s.chance(8):
        pos_body = pick_block(s, body)
        pos_body.insert(s.int(0, len(pos_body)), {"op": "cancel", "kind": s.pick(cfg.kinds)})
    if cfg.probes and s.chance(5):
        pos_body = pick_block(s, body)
        pos_body.insert(s.int(0, len(pos_body)), {"op": "probe"})
    if cfg.early_result and s.chance(15):
        pos_body = pick_block(s, body)
        pos_body.insert(s.int(0, len(pos_body)), {"op": "result"})
    if cfg.reads and t["id"] not in shared_ids:
        for _ in range(s.int(0, 3)):
            pos_body = pick_block(s, body)
            if "attr" in cfg.ctx and s.chance(3):
                pos_body.insert(s.int(0, len(pos_body)), {"op": "readattr", "obj": s.int(0, 1)})
            else:
                pos_body.insert(s.int(0, len(pos_body)), {"op": "read", "sv": s.int(0, 1)})


def pick_block(s, body):
    """a statement list somewhere inside body (body itself, or nested with/try bodies)"""
    cur = body
    while True:
        nested = [x["body"] for x in cur if x["op"] in ("with", "try")]
        if not nested or s.chance(2):
            return cur
        cur = nested[s.int(0, len(nested) - 1)]


def add_sharing(s, root):
    """free-form DAG: a task created at the start of some task P, awaited from P's later yields
    and from yields of tasks below P"""
    from .engine import walk_stmts, walk_struct
    cands = [t for t in tasks_of(root) if any(x["op"] == "yield" for x in t["body"])]
    if not cands:
        return set()
    p = cands[s.int(0, len(cands) - 1)]
    shared = mktask(s, seq_items(s, s.int(0, 2)))
    spots = []

    def collect(t):
        for st_ in walk_stmts(t["body"]):
            if st_["op"] == "yield":
                spots.append(st_)
                for leaf in walk_struct(st_["y"]):
                    if leaf[0] == "task":
                        collect(leaf[1])
    collect(p)
    lists = []

    def collect_lists(t, top):
        def walk(body, is_top):
            lists.append((body, 1 if is_top else 0))
            for st_ in body:
                if st_["op"] in ("with", "try"):
                    walk(st_["body"], False)
                elif st_["op"] == "yield":
                    for leaf in walk_struct(st_["y"]):
                        if leaf[0] == "task":
                            collect_lists(leaf[1], False)
        walk(t["body"], top)
    p["body"].insert(0, {"op": "mk", "task": shared})
    collect_lists(p, True)
    for _ in range(s.int(1, 3)):
        if s.cfg.sync and s.chance(3):
            # the shared task is computed synchronously (h.value()) by a task that did not create it
            body, lo = lists[s.int(0, len(lists) - 1)]
            at = s.int(min(lo, len(body)), len(body))
            body.insert(at, {"op": "syncref", "tid": shared["id"], "catch": s.chance(2)})
            held = [c for c in s.cfg.ctx if c in ("rec", "ov", "attr")]
            if held and s.chance(2):
                # ... and then, in the same step, enters a block and parks inside it
                inner = [{"op": "yield", "y": item(s), "catch": False}]
                if s.cfg.reads:
                    inner.append({"op": "read", "sv": s.int(0, 1)})
                body.insert(at + 1, {"op": "with", "ctx": gen_ctx(s, held), "body": inner})
            continue
        st_ = spots[s.int(0, len(spots) - 1)]
        ref = ["ref", shared["id"]]
        st_["y"] = s.pick([["T", [st_["y"], ref]], ["L", [ref, st_["y"]]], ["D", [["p", st_["y"]], ["q", ref]]]])
    return {shared["id"]}


def add_own_refs(s, root):
    """already-computed futures yielded again: a later statement of the same statement list
    yields a task that an earlier yield statement of that list created"""
    from .engine import walk_struct
    for t in tasks_of(root):
        lists = [t["body"]]
        while lists:
            body = lists.pop()
            earlier = []
            for st_ in body:
                if st_["op"] in ("with", "try"):
                    lists.append(st_["body"])
                elif st_["op"] == "yield":
                    if earlier and s.chance(4):
                        st_["y"] = ["T", [st_["y"], ["ref", earlier[s.int(0, len(earlier) - 1)]]]]
                    earlier += [leaf[1]["id"] for leaf in walk_struct(st_["y"]) if leaf[0] == "task"]


def add_gen_loops(s, root):
    """some tasks iterate an async generator by hand, a few items per statement, interleaved with their other statements
    (so that blocks of the consumer and blocks of the generator body overlap in every way)"""
    added = False
    for t in tasks_of(root):
        if not s.chance(6):
            continue
        body = t["body"]
        n = s.int(1, 3)
        cid0 = s.cid()
        for _ in range(n - 1):
            s.cid()
        at = s.int(0, len(body))
        body.insert(at, {"op": "genstart", "gid": 0, "n": n, "kind": s.pick(s.cfg.kinds), "cid0": cid0,
                         "mode": s.pick(s.cfg.agen_modes if s.cfg.ctx else ["plain"])})
        for _ in range(s.int(1, 3)):
            at = s.int(at + 1, len(body))
            body.insert(at, {"op": "gennext", "gid": 0, "count": s.int(1, 2)})
        added = True
    return added


def add_same_yield_dups(s, root):
    """the same not-yet-started task written more than once in one yielded tuple/list: (a, b, a)"""
    from .engine import walk_stmts
    for t in tasks_of(root):
        for st_ in walk_stmts(t["body"]):
            if st_["op"] != "yield" or not st_["y"] or st_["y"][0] not in ("T", "L"):
                continue
            members = st_["y"][1]
            firsts = [m[1]["id"] for m in members if m and m[0] == "task"]
            if len(firsts) >= 2 and s.chance(3):
                members.append(["ref", firsts[s.int(0, len(firsts) - 2)]])
            elif len(firsts) == 1 and len(members) >= 2 and members[0] and members[0][0] == "task" and s.chance(4):
                members.append(["ref", firsts[0]])


def priorities(s):
    cfg = s.cfg
    if cfg.prio == "default":
        return {}
    if cfg.prio == "tiefree":
        perm = s.d(st.permutations(range(len(cfg.kinds))))
        return {k: [p] for k, p in zip(cfg.kinds, perm)}
    mode = s.int(0, 3)
    if mode == 0:
        return {}
    if mode == 1:
        perm = s.d(st.permutations(range(len(cfg.kinds))))
        return {k: [p] for k, p in zip(cfg.kinds, perm)}
    out = {}
    for k in cfg.kinds:
        if s.chance(2):
            out[k] = s.d(st.lists(st.integers(0, 3), min_size=1, max_size=3))
    return out


def add_reyields(s, root):
    """a later statement of the same statement list yields the very same object again"""
    nid = [0]
    for t in tasks_of(root):
        lists = [t["body"]]
        while lists:
            body = lists.pop()
            i = 0
            while i < len(body):
                st_ = body[i]
                if st_["op"] in ("with", "try"):
                    lists.append(st_["body"])
                elif st_["op"] == "yield" and st_["y"] is not None and s.chance(6):
                    nid[0] += 1
                    st_["yid"] = nid[0]
                    j = s.int(i + 1, len(body))
                    body.insert(j, {"op": "reyield", "yid": nid[0], "catch": st_["catch"] or s.chance(2)})
                i += 1


def hoist_mk(root):
    """``mk`` statements always execute first in their task, whatever decoration wrapped them in"""
    for t in tasks_of(root):
        mks = []

        def strip(body):
            for st_ in list(body):
                if st_["op"] == "mk":
                    body.remove(st_)
                    mks.append(st_)
                elif st_["op"] in ("with", "try"):
                    strip(st_["body"])
        strip(t["body"])
        t["body"][0:0] = mks


def strip_tools_in_shared(root):
    """the dynamic scope of a task awaited by several parents is ambiguous: no tool body reads inside such tasks"""
    from .engine import walk_stmts

    def strip_struct(y):
        if y is None:
            return y
        if y[0] in ("T", "L"):
            return [y[0], [strip_struct(x) for x in y[1]]]
        if y[0] == "D":
            return ["D", [[k, strip_struct(x)] for k, x in y[1]]]
        if y[0] == "task":
            strip_task(y[1])
            return y
        return ["const", 0] if y[0] == "tool" else y

    def strip_body(body):
        body[:] = [st_ for st_ in body if st_["op"] not in ("genstart", "gennext")]
        for st_ in body:
            if st_["op"] in ("with", "try"):
                strip_body(st_["body"])
            elif st_["op"] == "yield":
                st_["y"] = strip_struct(st_["y"])
            elif st_["op"] in ("sync", "mk"):
                strip_task(st_["task"])

    def strip_task(t):
        strip_body(t["body"])
    for t in tasks_of(root):
        for st_ in walk_stmts(t["body"]):
            if st_["op"] == "mk":
                strip_task(st_["task"])


@st.composite
def programs(draw, cfg):
    s = S(draw, cfg)
    shape = s.pick(cfg.shapes)
    root = SHAPES[shape](s)
    from .engine import walk_stmts
    shared = set()
    for t in tasks_of(root):
        for st_ in walk_stmts(t["body"]):
            if st_["op"] == "mk":
                shared.update(x["id"] for x in tasks_of(st_["task"]))
    # (cancelled batches and failing flush bodies would hit the requests made inside library-tool bodies, which the
    # sequential reference does not see: programs that use tools get neither)
    from .engine import walk_struct
    s.has_tools = any(leaf[0] == "tool" for t in tasks_of(root) for st_ in walk_stmts(t["body"]) if st_["op"] == "yield" for leaf in walk_struct(st_["y"]))
    if "agen" in cfg.tools and add_gen_loops(s, root):
        s.has_tools = True
    for t in tasks_of(root):
        decorate_task(s, t, shared)
    if cfg.dag and shape in ("free", "tree", "chain", "comb") and s.chance(2):
        add_sharing(s, root)
    if cfg.dag and s.chance(3):
        add_own_refs(s, root)
    if cfg.dag and s.chance(3):
        add_same_yield_dups(s, root)
    hoist_mk(root)
    if cfg.tool_reads:
        strip_tools_in_shared(root)
    if cfg.reyield:
        add_reyields(s, root)
    prog = {"root": root, "shape": shape, "prio": priorities(s), "faults": [], "conv": s.pick(cfg.convs), "nsv": 2}
    if cfg.tool_reads:
        prog["tool_reads"] = True
    if cfg.premade and root["body"] and root["body"][0]["op"] == "mk" and s.chance(2):
        prog["premade"] = True      # the shared tasks are created by the starting code, not by the root task
    if cfg.flush_faults and not s.has_tools and s.chance(3):
        for _ in range(s.int(1, 2)):
            prog["faults"].append([s.pick(cfg.kinds), s.pick([0, 0, 0, 1, 1, 2]), s.pick(cfg.flush_faults)])
    return prog


# ---- static facts about a program (class labels, non-triviality rules) ----------------------

def stats(prog):
    from .engine import all_tasks, walk_stmts, walk_struct
    ts = list(all_tasks(prog["root"]))
    kinds = set()
    ops = {}
    leaves = {}
    nested = False
    for t in ts:
        for st_ in walk_stmts(t["body"]):
            ops[st_["op"]] = ops.get(st_["op"], 0) + 1
            if st_["op"] == "yield":
                if st_["y"] is not None and st_["y"][0] in ("T", "L", "D"):
                    nested = True
                for leaf in walk_struct(st_["y"]):
                    leaves[leaf[0]] = leaves.get(leaf[0], 0) + 1
                    if leaf[0] == "item":
                        kinds.add(leaf[1])
    return {"tasks": len(ts), "kinds": len(kinds), "ops": ops, "leaves": leaves, "nested": nested}
