"""Structural reducer for E1 programs (applied after Hypothesis' own shrinking, which works on
the draw sequence and leaves inert statements behind).  Yields strictly smaller candidates."""
import copy


def _lists(task, out):
    """all statement lists of a task, and recursively of the tasks below it"""
    def walk(body):
        out.append(body)
        for st in body:
            if st["op"] in ("with", "try"):
                walk(st["body"])
            elif st["op"] in ("sync", "mk"):
                _lists(st["task"], out)
            elif st["op"] == "yield":
                _structs(st["y"], out)
    walk(task["body"])


def _structs(s, out):
    if s is None:
        return
    if s[0] in ("T", "L"):
        for x in s[1]:
            _structs(x, out)
    elif s[0] == "D":
        for k, x in s[1]:
            _structs(x, out)
    elif s[0] == "task":
        _lists(s[1], out)


def candidates(prog):
    # cheap global simplifications first
    if prog.get("prio"):
        p = copy.deepcopy(prog)
        p["prio"] = {}
        yield p
    if prog.get("faults"):
        for i in range(len(prog["faults"])):
            p = copy.deepcopy(prog)
            del p["faults"][i]
            yield p
    if prog.get("conv", "value") != "value":
        p = copy.deepcopy(prog)
        p["conv"] = "value"
        yield p
    lists = []
    _lists(prog["root"], lists)
    n = len(lists)
    for li in range(n):
        m = len(lists[li])
        for si in range(m):
            # drop the statement
            p = copy.deepcopy(prog)
            ls = []
            _lists(p["root"], ls)
            del ls[li][si]
            yield p
            st = lists[li][si]
            if st["op"] in ("with", "try"):
                p = copy.deepcopy(prog)
                ls = []
                _lists(p["root"], ls)
                ls[li][si:si + 1] = ls[li][si]["body"]
                yield p
            if st["op"] == "yield":
                for alt in struct_alts(st["y"]):
                    p = copy.deepcopy(prog)
                    ls = []
                    _lists(p["root"], ls)
                    ls[li][si]["y"] = alt
                    yield p
                if st["catch"]:
                    p = copy.deepcopy(prog)
                    ls = []
                    _lists(p["root"], ls)
                    ls[li][si]["catch"] = False
                    yield p
            if st["op"] == "sync" and st["how"] != "call":
                p = copy.deepcopy(prog)
                ls = []
                _lists(p["root"], ls)
                ls[li][si]["how"] = "call"
                yield p
    # replace a task by one of the tasks directly below it
    for t in list(_tasks(prog["root"])):
        for c in _children(t):
            p = copy.deepcopy(prog)
            _replace_task(p, t["id"], copy.deepcopy(c))
            yield p
    for t in _tasks(prog["root"]):
        if t.get("via") == "result":
            p = copy.deepcopy(prog)
            for t2 in _tasks(p["root"]):
                if t2["id"] == t["id"]:
                    t2["via"] = "return"
            yield p


def _tasks(root):
    from .engine import all_tasks
    return all_tasks(root)


def struct_alts(s):
    """smaller structures in place of s"""
    if s is None:
        return
    yield None
    if s[0] in ("T", "L"):
        for i, x in enumerate(s[1]):
            yield copy.deepcopy(x)
            yield [s[0], [copy.deepcopy(y) for j, y in enumerate(s[1]) if j != i]]
            for a in struct_alts(x):
                yield [s[0], [a if j == i else copy.deepcopy(y) for j, y in enumerate(s[1])]]
    elif s[0] == "D":
        for i, (k, x) in enumerate(s[1]):
            yield copy.deepcopy(x)
            yield ["D", [copy.deepcopy(kv) for j, kv in enumerate(s[1]) if j != i]]
            for a in struct_alts(x):
                yield ["D", [[k2, a] if j == i else [k2, copy.deepcopy(y)] for j, (k2, y) in enumerate(s[1])]]
    elif s[0] == "task":
        yield ["const", 0]
    elif s[0] in ("item", "ditem") or s[0] in ("lazy", "slazy", "errfut", "bad", "nonef", "ref", "afn", "excval", "pfn", "acall", "tool"):
        yield ["const", 0]


def _children(t):
    from .engine import walk_stmts, walk_struct
    for st in walk_stmts(t["body"]):
        if st["op"] in ("sync", "mk"):
            yield st["task"]
        elif st["op"] == "yield":
            for leaf in walk_struct(st["y"]):
                if leaf[0] == "task":
                    yield leaf[1]


def _replace_task(prog, tid, new):
    from .engine import walk_stmts, walk_struct
    if prog["root"]["id"] == tid:
        prog["root"] = new
        return
    for t in list(_tasks(prog["root"])):
        for st in walk_stmts(t["body"]):
            if st["op"] in ("sync", "mk") and st["task"]["id"] == tid:
                st["task"] = new
                return
            if st["op"] == "yield":
                for leaf in walk_struct(st["y"]):
                    if leaf[0] == "task" and leaf[1]["id"] == tid:
                        leaf[1] = new
                        return
