#!/bin/sh
# usage: tools/seedcheck.sh C05 a [CHECKS]   -- confirm an independently written seeded change and run checks against it
#   1. copies ${SEED_OUT:-/tmp/seed/out}/<ID>/<x>/{patch.diff,demo.py,meta.json} to seeded/<ID>-<x>/
#   2. confirms it in a scratch worktree: suite passes on py and cy with the change, demo fails with it and passes without
#   3. runs the given checks (default: the property's own) against a scratch copy of /repo with the patch applied
ID=$1; X=$2; CHECKS=${3:-$ID}
cd "$(dirname "$0")/.."
SRC=${SEED_OUT:-/tmp/seed/out}/$ID/$X
DST=seeded/$ID-$X
mkdir -p $DST
cp $SRC/patch.diff $SRC/demo.py $SRC/meta.json $DST/ || exit 2
WT=${TMPDIR:-/tmp}/seed-confirm-$ID-$X
rm -rf $WT; git -C /repo worktree add -q --detach $WT HEAD || exit 2
{
echo "== demo WITHOUT the change (py):"; tools/seed_run_demo.sh $WT $DST/demo.py py >/dev/null 2>&1; echo "exit=$?"
git -C $WT apply $(pwd)/$DST/patch.diff 2>/dev/null || patch -s -p1 -d $WT -i $(pwd)/$DST/patch.diff || { echo "PATCH DOES NOT APPLY"; }
echo "== suite WITH the change:"; tools/seed_run_suite.sh $WT
echo "== demo WITH the change (py):"; tools/seed_run_demo.sh $WT $DST/demo.py py 2>&1 | tail -3; tools/seed_run_demo.sh $WT $DST/demo.py py >/dev/null 2>&1; echo "exit=$?"
echo "== demo WITH the change (cy):"; tools/seed_run_demo.sh $WT $DST/demo.py cy >/dev/null 2>&1; echo "exit=$?"
} > $DST/confirm.txt 2>&1
git -C /repo worktree remove --force $WT
cat $DST/confirm.txt
echo "== checks against the change:"
tools/mutate.py --cy $DST/patch.diff $CHECKS | tee $DST/checks.txt
