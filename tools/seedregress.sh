#!/bin/sh
# sensitivity regression: every stored seeded change against the checks recorded as catching it (meta.json
# verification.caught_by_current_checks), three at a time; prints the ones that are no longer caught
#   tools/seedregress.sh [ID-x ...]
cd "$(dirname "$0")/.."
LIST=${*:-$(ls seeded)}
for d in $LIST; do
  ch=$(/venv/bin/python -c "import json,sys; m=json.load(open('seeded/$d/meta.json')); print(','.join(m.get('verification',{}).get('caught_by_current_checks') or []))")
  [ -n "$ch" ] && echo "$d $ch"
done | xargs -P 3 -L 1 sh -c 'P=seeded/$0/patch.diff; [ -f seeded/$0/patch.rebased.diff ] && P=seeded/$0/patch.rebased.diff; out=$(tools/mutate.py --cy $P $1 2>&1 | cut -c1-200); echo "$out" | grep -q "MISSED\|ERROR" && echo "REGRESSION $0: $out" || echo "ok $0"'
