"""merge the per-worker line sets written under VERIF_COVERAGE and list unreached executable lines"""
import glob
import json
import os
import sys
import types

covdir = sys.argv[1]
seen = {}
for f in glob.glob(os.path.join(covdir, "*.json")):
    prop = os.path.basename(f).split("-")[0]
    for fn, ln in json.load(open(f)):
        seen.setdefault(fn, {}).setdefault(ln, set()).add(prop)


def exec_lines(code, out):
    for _, _, ln in code.co_lines():
        if ln is not None:
            out.add(ln)
    for c in code.co_consts:
        if isinstance(c, types.CodeType):
            exec_lines(c, out)


root = "/repo/asynq"
tot = hit = 0
for fn in sorted(os.listdir(root)):
    if not fn.endswith(".py") or fn.startswith("test"):
        continue
    src = open(os.path.join(root, fn)).read()
    lines = set()
    code = compile(src, fn, "exec")
    # function bodies only: module-level statements run at import
    for c in code.co_consts:
        if isinstance(c, types.CodeType):
            exec_lines(c, lines)
    text = src.split("\n")
    lines = {l for l in lines if 0 < l <= len(text)}
    got = set(seen.get(fn, {}))
    missing = sorted(lines - got)
    tot += len(lines)
    hit += len(lines & got)
    print("== %s: %d/%d executable lines in function bodies reached" % (fn, len(lines & got), len(lines)))
    for l in missing:
        print("   %4d  %s" % (l, text[l - 1].rstrip()[:140]))
print("TOTAL %d/%d" % (hit, tot))
