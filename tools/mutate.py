#!/venv/bin/python
"""Sensitivity protocol: apply a named mutation to a *scratch copy* of /repo (never to /repo),
run checks against it, report caught / missed, delete the copy.

    tools/mutate.py [--cy] [--tier quick] NAME[,NAME..]|all  [CHECK,CHECK..]

Mutations live in tools/mutants.py: NAME -> (file, old, new, [checks expected to catch it]).
"""
import os
import shutil
import subprocess
import sys
import tempfile
import concurrent.futures as cf

HERE = os.path.dirname(os.path.dirname(os.path.abspath(__file__)))
sys.path.insert(0, os.path.join(HERE, "tools"))
import mutants  # noqa


def run_one(name, checks, cy, tier):
    patch = None
    if name.endswith(".diff"):
        patch, expect = os.path.abspath(name), []
    else:
        file, old, new, expect = mutants.M[name][:4]
    checks = checks or expect
    tmp = tempfile.mkdtemp(prefix="asynq-mut-")
    try:
        repo = os.path.join(tmp, "repo")
        os.makedirs(repo)
        shutil.copytree("/repo/asynq", os.path.join(repo, "asynq"), ignore=shutil.ignore_patterns("*.so", "__pycache__", "*.c", "tests"))
        for f in ("setup.py", "README.rst"):
            shutil.copy("/repo/" + f, repo)
        if patch:
            r = subprocess.run(["git", "apply", "--unsafe-paths", "--directory=" + repo, patch], cwd=repo, stdout=subprocess.PIPE, stderr=subprocess.STDOUT, text=True)
            if r.returncode != 0:
                r = subprocess.run(["patch", "-p1", "-d", repo, "-i", patch], stdout=subprocess.PIPE, stderr=subprocess.STDOUT, text=True)
                if r.returncode != 0:
                    return name, {"error": "patch does not apply: " + r.stdout[-300:]}
        else:
            p = os.path.join(repo, file)
            src = open(p).read()
            if src.count(old) != 1:
                return name, {"error": "pattern occurs %d times" % src.count(old)}
            open(p, "w").write(src.replace(old, new))
        env = dict(os.environ, VERIF_REPO=repo, VERIF_SCRATCH=os.path.join(tmp, "scratch"), VERIF_STALL_S="40", VERIF_RERUN_S="60")
        if not cy:
            env["VERIF_SKIP_CY"] = "1"
        out = {}
        for c in checks:
            # evidence of a mutant run must not overwrite the real evidence: run from a copy of /verif
            vcopy = os.path.join(tmp, "verif-" + c)
            shutil.copytree(HERE, vcopy, ignore=shutil.ignore_patterns(".git", "__pycache__", "found", "seeded"))
            r = subprocess.run([os.path.join(vcopy, "vcheck"), c, "--tier", tier], env=env, stdout=subprocess.PIPE, stderr=subprocess.STDOUT, text=True)
            lines = [l for l in r.stdout.splitlines() if l.startswith("VIOLATION")]
            out[c] = (r.returncode, lines[0][:230] if lines else r.stdout.strip().splitlines()[-1][:230] if r.stdout.strip() else "")
        return name, out
    finally:
        shutil.rmtree(tmp, ignore_errors=True)


def main():
    args = [a for a in sys.argv[1:] if not a.startswith("--")]
    cy = "--cy" in sys.argv
    tier = "quick"
    names = list(mutants.M) if args[0] == "all" else args[0].split(",")
    if "--thorough" in sys.argv:
        tier = "thorough"
    checks = args[1].split(",") if len(args) > 1 else None
    if checks:
        names = [n for n in names if args[0] != "all" or set(checks) & set(mutants.M[n][3])]
    with cf.ThreadPoolExecutor(max_workers=4) as ex:
        futs = [ex.submit(run_one, n, checks, cy, tier) for n in names]
        for f in futs:
            name, out = f.result()
            if "error" in out:
                print("%-34s ERROR %s" % (name, out["error"]))
                continue
            for c, (rc, line) in out.items():
                verdict = {0: "MISSED", 1: "caught", 2: "HARNESS-ERROR"}.get(rc, "rc=%s" % rc)
                print("%-34s %-4s %-8s %s" % (name, c, verdict, line))


if __name__ == "__main__":
    main()
