#!/bin/sh
# thorough tier of the given checks, one after the other:  tools/thorough_some.sh C09 C10 ...
cd "$(dirname "$0")/.."
bad=0
for c in "$@"; do
  out=$(./vcheck $c --tier thorough 2>&1); rc=$?
  echo "$c rc=$rc $(echo "$out" | tail -1)"
  if [ $rc -ne 0 ]; then bad=1; echo "$out" | head -20; fi
done
exit $bad
