#!/bin/sh
# quiet-on-unchanged-tree sweep: every check at several seeds, fresh processes
cd "$(dirname "$0")/.."
SEEDS=${SEEDS:-"2 3 4 5 6"}
TIER=${TIER:-quick}
bad=0
for s in $SEEDS; do
  for c in C01 C02 C03 C04 C05 C06 C07 C08 C09 C10 C11 C12 C13 C14 C15 C16 C17 C18 C19 C20; do
    out=$(VERIF_SEED=$s ./vcheck $c --tier $TIER 2>&1); rc=$?
    echo "seed=$s $c rc=$rc $(echo "$out" | tail -1)"
    if [ $rc -ne 0 ]; then bad=1; echo "$out" | head -20; fi
  done
done
exit $bad
