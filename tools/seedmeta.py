#!/usr/bin/env python3
"""fill the `verification` block of seeded/<ID>-<x>/meta.json from confirm.txt and checks.txt

    tools/seedmeta.py ROUND FIRSTRUN.json ID-x [ID-x ...]

FIRSTRUN.json maps "ID-x" to "caught" / "MISSED" (the checks as they stood when the change arrived)."""
import json
import os
import re
import sys

HERE = os.path.dirname(os.path.dirname(os.path.abspath(__file__)))
rnd = int(sys.argv[1])
first = json.load(open(sys.argv[2]))
for name in sys.argv[3:]:
    d = os.path.join(HERE, "seeded", name)
    conf = open(os.path.join(d, "confirm.txt")).read()
    checks = open(os.path.join(d, "checks.txt")).read()
    exits = [int(x) for x in re.findall(r"^exit=(\d+)", conf, re.M)]
    suite = dict(re.findall(r"== (py|cy): (\d+ passed)", conf))
    caught, missed = [], []
    for line in checks.splitlines():
        m = re.match(r"\S+\s+(C\d+)\s+(caught|MISSED)", line)
        if m:
            (caught if m.group(2) == "caught" else missed).append(m.group(1))
    meta = json.load(open(os.path.join(d, "meta.json")))
    pid, x = name.split("-")
    meta["verification"] = {
        "round": rnd, "property": pid,
        "confirmed_by_me": {"demo_exit_without_change_py": exits[0] if exits else None, "suite_with_change": suite,
                            "demo_exit_with_change_py": exits[1] if len(exits) > 1 else None, "demo_exit_with_change_cy": exits[2] if len(exits) > 2 else None},
        "what_i_ran": ["tools/seedcheck.sh %s %s  (scratch worktree of /repo: demo without the change, git apply patch.diff, suite on py and cy, demo with the change on py and cy; then tools/mutate.py --cy patch.diff <checks> = ./vcheck <ID> --tier quick against a scratch copy of /repo with the patch applied)" % (pid, x)],
        "caught_by_current_checks": caught, "not_caught_by": missed,
        "first_run_of_the_checks_as_they_were_when_the_change_arrived": first.get(name, "?"),
    }
    json.dump(meta, open(os.path.join(d, "meta.json"), "w"), indent=1)
    c = meta["verification"]["confirmed_by_me"]
    ok = c["demo_exit_without_change_py"] == 0 and c["suite_with_change"].get("py") == "104 passed" and c["suite_with_change"].get("cy") == "104 passed" and (c["demo_exit_with_change_py"] or c["demo_exit_with_change_cy"])
    print(name, "confirmed" if ok else "NOT CONFIRMED %r" % c, "caught by", caught, "missed by", missed, "first run:", first.get(name))
