#!/bin/sh
# Runs the repository's own test suite against both scratch builds of /repo's working tree
# (the .so files lying in /repo are stale, so the plain baseline command does not exercise an
# edited compiled module).  Scratch copies are removed afterwards.
set -e
cd "$(dirname "$0")/.."
INFO=$(/venv/bin/python -m harness.build)
for b in py cy; do
    src=$(echo "$INFO" | /venv/bin/python -c "import json,sys; print(json.load(sys.stdin).get('$b') or '')")
    [ -n "$src" ] || { echo "no $b build"; continue; }
    tmp=$(mktemp -d /tmp/asynq-suite-XXXXXX)
    cp -r "$src/asynq" "$tmp/asynq"
    cp -r /repo/asynq/tests "$tmp/asynq/tests"
    echo "== $b build =="
    (cd "$tmp" && PYTHONPATH="$tmp" /venv/bin/python -m pytest -q -p no:cacheprovider --timeout=900 asynq/tests --deselect asynq/tests/test_pyright.py::test_return_type > "$tmp/log" 2>&1; tail -1 "$tmp/log") || true
    rm -rf "$tmp"
done
