#!/bin/sh
# usage: tools/seed_run_demo.sh <worktree of quora/asynq> <demo.py> [py|cy]
# runs a demonstration program against a scratch build of that worktree; exit status = the demo's
HERE="$(cd "$(dirname "$0")/.." && pwd)"
WT=$1; DEMO=$2; B=${3:-py}
S=$(mktemp -d ${TMPDIR:-/tmp}/seed-demo-XXXXXX)
INFO=$(cd "$HERE" && VERIF_REPO="$WT" VERIF_SCRATCH="$S/scratch" /venv/bin/python -m harness.build)
src=$(echo "$INFO" | /venv/bin/python -c "import json,sys; print(json.load(sys.stdin).get('$B') or '')")
[ -n "$src" ] || { echo "no $B build"; rm -rf "$S"; exit 2; }
PYTHONPATH="$src" timeout 600 /venv/bin/python "$DEMO"; rc=$?
rm -rf "$S"
exit $rc
