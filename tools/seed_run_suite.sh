#!/bin/sh
# usage: tools/seed_run_suite.sh <worktree of quora/asynq>
# runs the repository's own tests against a pure-Python and a Cython-compiled scratch build of that worktree
HERE="$(cd "$(dirname "$0")/.." && pwd)"
WT=$1
S=$(mktemp -d ${TMPDIR:-/tmp}/seed-suite-XXXXXX)
INFO=$(cd "$HERE" && VERIF_REPO="$WT" VERIF_SCRATCH="$S/scratch" /venv/bin/python -m harness.build)
for b in py cy; do
    src=$(echo "$INFO" | /venv/bin/python -c "import json,sys; print(json.load(sys.stdin).get('$b') or '')")
    [ -n "$src" ] || { echo "== $b: no build"; continue; }
    t="$S/run-$b"; mkdir -p "$t"; cp -r "$src/asynq" "$t/asynq"; cp -r "$WT/asynq/tests" "$t/asynq/tests"
    (cd "$t" && PYTHONPATH="$t" /venv/bin/python -m pytest -q -p no:cacheprovider --timeout=900 asynq/tests --deselect asynq/tests/test_pyright.py::test_return_type > "$t/log" 2>&1; echo "== $b: $(tail -1 "$t/log")")
done
rm -rf "$S"
