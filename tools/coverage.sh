#!/bin/sh
# development aid: line coverage of the pure-Python build of /repo's asynq under the quick checks
#   tools/coverage.sh [CHECK ...]      -> prints, per source file, the executable lines no check reached
cd "$(dirname "$0")/.."
COV=${TMPDIR:-/tmp}/asynq-verif-cov
rm -rf "$COV"; mkdir -p "$COV"
CHECKS=${*:-C01 C02 C03 C04 C05 C06 C07 C08 C09 C10 C11 C12 C13 C14 C15 C16 C17 C18 C19 C20}
V=$(mktemp -d ${TMPDIR:-/tmp}/verif-cov-XXXX)
cp -r harness vcheck KNOWN_FINDINGS.txt replays "$V"/ 2>/dev/null
for c in $CHECKS; do
  VERIF_COVERAGE="$COV" VERIF_SKIP_CY=1 "$V"/vcheck $c --tier quick | tail -1
done
rm -rf "$V"
/venv/bin/python tools/coverage_report.py "$COV"
