#!/usr/bin/env python3
"""Regenerates MANIFEST.json from the table below (kept valid at all times)."""
import json, os
HERE = os.path.dirname(os.path.dirname(os.path.abspath(__file__)))

CHECKS = {}   # id -> dict(text, note, technique, design_ref)
PENDING = {}  # id -> reason (not yet claimed)

def check(pid, text, note, technique, ref):
    CHECKS[pid] = dict(text=text, note=note, technique=technique, ref=ref)

check("C01",
      "Generated task programs (shape-first: chain/tree/comb/diamond/re-entry comb/staggered/free-form; nested tuple/list/dict yields, DAG sharing, the same object yielded again, synchronous re-entry incl. direct item.value() calls, try/except, contexts, failing leaves, one lazy Future object in several places) are run on both builds under generated get_priority tables and every calling convention; root outcome and every task's transcript must equal an independent sequential reference interpreter, and be identical across conventions and under the reversed priority table. Library tools are leaves of the programs too (deduplicated functions incl. self re-entry and two same-named functions, alru_cache'd functions, async generators consumed by list_of_generator or iterated by hand a few items per statement, amap/afilter/asorted/amin/amax with blocking keys, aretry, call_with_context with a recording / failing / suppressing context); the reference knows each tool's documented result. An enumerated boundary-size campaign (tuples / lists / dicts / sibling fans of 127..70 000 members, a synchronous call made with 65 537 entries on the scheduler stack) targets narrowed C integer types of the compiled build. Search, not proof: evidence reports cases, distinct non-trivial cases and class distribution.",
      "Trusted: the 170-line reference interpreter (harness/e1/ref.py), the harness batch kinds (written as the README prescribes), Hypothesis. Flush orders are steered via get_priority, a superset of what set-iteration tie-breaks can produce between batches of different kinds.",
      "property-based differential testing against a sequential reference interpreter + metamorphic relations (calling convention, reversed priorities), Hypothesis-generated program ASTs, structural shrinking",
      "DESIGN.md 5/C01")

check("C02",
      "Fault-heavy generated programs (a task raising at any step, item errors, items left unset, flush bodies raising after a prefix, ErrorFuture, failing lazy Future, non-future objects; try/except on or off at every level; synchronous re-entry; DAG sharing; library tools as leaves, e.g. a function failing inside call_with_context, whose context must be told about the failure and may suppress it) on both builds. Oracle: the sequential reference's 'first failure in structure order' for outcome and every transcript; in-body monitors assert exception *identity* (the object caught is error() of the first failing future), that every future yielded alongside is computed at delivery, and that value() raises the task's own error object. Hangs are caught by the heartbeat watchdog and confirmed alone before being reported.",
      "Trusted: reference interpreter, harness batch kinds; which items a raising flush leaves unset is read from the flush body's own log. NonAsyncContext / failing contexts are excluded from this property's programs.",
      "property-based testing with fault injection at generated positions; differential against a sequential reference + identity/ordering monitors inside the generated task bodies",
      "DESIGN.md 5/C02")
check("C04",
      "Yield-only generated programs (unequal depths, DAG sharing, errors, failing flush bodies, try/except, contexts, 1-3 batch kinds, generated priority tables; deduplicated / cached / generator / amap / aretry leaves in the invariant campaign). At every on_before_batch_flush the harness asserts from its own records that every awaited, uncompleted task has started and still waits on an uncomputed future (induction over the acyclic program gives 'is waiting on an unflushed item'); single-kind programs are additionally compared with an independent round simulator: number of flushes = critical path, and the argument multiset of each flush = the simulator's round (also on fans of up to 65 537 siblings). A further campaign starts each program while the scheduler still holds a request registered by an earlier computation (its task failed while parked on it): no flush may precede the start of the awaited task.",
      "Trusted: round simulator (harness/e1/sim.py), harness bookkeeping of what each task yielded. With several kinds only the invariant is asserted (the flush count is schedule dependent).",
      "property-based testing: invariant checked at every flush event + differential against a round-based reference scheduler",
      "DESIGN.md 5/C04")
check("C05",
      "Generated programs over 2-3 batch kinds with generated get_priority tables (overrides, ties, default), flush bodies that succeed / set errors / skip items / raise after a prefix / whose public flush() raises / that call synchronously into asynq, clients that cancel their pending batch or call item.value() directly, with and without nested synchronous calls. History invariants over before/body/after events: each batch at most once, never empty or already flushed, nothing flushed once the innermost awaited computation is complete, events exactly before,body,after (after also on failure); yield-only: flushed priority = max over the harness-computed candidate set; every item announced once inside its batch's window with the outcome its flush set; waiting tasks receive exactly that (reference interpreter fed with the flush log). Half of the programs run a second time on the same scheduler without any reset (some after a computation that ran before the hooks were subscribed) under the same oracles.",
      "Trusted: harness batch kinds and their log, reference interpreter. Ties may resolve either way (only a strictly greater pending priority is a violation).",
      "property-based testing: history invariants over flush events of generated programs + differential on received values",
      "DESIGN.md 5/C05")

check("C03",
      "Generated programs (yield-only, and a second campaign with synchronous re-entry) with tasks awaited by several parents, already-computed futures and the same object yielded again, orphans, empty structures, the same unstarted task written twice in one yield, library tools as leaves, and failures: monitors inside every generated task body assert 'never resumed with an uncomputed future', 'resumes = yields', 'no step after completion', 'orphans never start', 'fresh list/tuple siblings start in the order written'; after value() returns every task the reference says is transitively awaited must be computed; the same oracles run on enumerated boundary sizes (fans of up to 65 537 sibling tasks / items). Deep chains (up to 1 500 awaiting tasks in the quick tier, 100 000 in the thorough tier, five yield patterns plus eleven patterns in which every level awaits the next through a library tool: amap, afilter, amin, amax, asorted, an async generator's first or second await, deduplicate, alru_cache, aretry, call_with_context) must return the closed-form value with exactly one resume per yield. Termination is a bounded check (heartbeat watchdog, case re-run alone before a hang is reported).",
      "Trusted: the monitors in harness/e1/engine.py; liveness is bounded by VERIF_STALL_S (120 s against milliseconds per case).",
      "property-based testing with in-body runtime monitors over generated DAG programs + enumerated deep-chain scalability cases + watchdog",
      "DESIGN.md 5/C03")
check("C06",
      "Generated programs with recording AsyncContext blocks (real with statements: spanning several yields, nested, in many concurrently pending tasks, left normally / by delivered error / by an exception the same task handles / by early result, with synchronous re-entry and DAG sharing; blocks inside @async_generator() bodies -- around an awaited future, around one Value, around several Values -- consumed by list_of_generator or iterated by hand under the consumer's own blocks; call_with_context). Oracle per context: the event sequence is r(pr)*Xp -- resume at entry, strict alternation, exactly one pause after the block exit X and nothing afterwards; at every statement of every task and at every flush the context is active iff its owner is ancestor-or-self (uniquely) of the running task / of the task whose synchronous call drives the flush, and paused if its owner does not reach the running task at all -- computed from the program's await/sync-call graph. NonAsyncContext: yield-only tree programs compared with a NonAsyncContext-aware round simulator (a task fails with AssertionError iff it has to be suspended inside the block). One task holding 5..300 contexts at once (boundary sizes) is checked with the same rule.",
      "Trusted: round simulator, the harness's record of the await graph. Nothing is asserted about which of two awaiters' contexts is active for a shared task; contexts whose own pause/resume raise are out of scope here (C08).",
      "property-based testing: runtime monitors + event-log invariants over generated programs; differential against a round simulator for NonAsyncContext",
      "DESIGN.md 5/C06")
check("C07",
      "Generated programs with AsyncScopedValue.override / async_override blocks on shared values, reads at generated positions, nested and concurrent overrides in many pending tasks, synchronous re-entry and failures. Oracle: the global resume/pause log of all contexts is well-parenthesised (LIFO); every read equals the dynamic-scope value computed by the sequential reference interpreter; after the call returns or raises every value/attribute equals its initial value; override values include None and 0; one task holding 5..300 overrides at once is an enumerated boundary case. Bodies of library tools called by a task read the value after their request came back; half of the programs run a second time without any reset (top-level override blocks in between, task objects created before the first run) under the same oracles.",
      "Trusted: reference interpreter's dynamic scoping. Reads inside tasks with two awaiters are not generated (ambiguous scope).",
      "property-based differential testing against a sequential reference (dynamic scoping) + LIFO invariant over the context event log",
      "DESIGN.md 5/C07")

check("C08",
      "Generated histories of 1-4 programs run one after another on the same thread without resetting the scheduler; every program has arbitrary failure points (task steps, items, raising and hard-failing flushes, failing lazy futures, contexts whose pause/resume raise, NonAsyncContext, MAX_TASK_STACK_SIZE lowered below the program's need, library tools incl. a deduplicated body that re-enters itself from a failure handler) and nested synchronous re-entry. Inside bodies get_active_task() must be the running task at every statement and after each nested synchronous call; after each computation get_active_task() is None, the scheduler retains no task, str(scheduler) works, and a fixed canary computation (own batch kind, context, nested structure) produces exactly the trace it produces on a fresh scheduler, without flushing anything foreign (after a runaway recursion in a yield-only program the harness leaves the dead computation's batches alone, because asynq resets the scheduler itself there).",
      "Trusted: the canary's fresh-scheduler trace (recorded in the same process); leftover *batches* are cancelled by the harness between computations (the statement speaks of tasks). The in-body monitor is not consulted under a lowered stack limit.",
      "model-based history testing: Hypothesis-generated sequences of fault-injected programs against a 'fresh scheduler' canary oracle + state invariants after every step",
      "DESIGN.md 5/C08")
check("C20",
      "Tie-free generated programs (synchronous re-entry incl. the re-entry comb shape and direct item.value() calls, failures, several batch kinds, DebugBatchItem, contexts, library tools as leaves; half of the cases under a lowered MAX_TASK_STACK_SIZE) are run under default options and then under every single boolean debug option, all-on, and generated subsets (thorough: all pairs with the three options that touch scheduling paths), with SCHEDULER_STATE_DUMP_INTERVAL=0 so dump code executes and a harness clock stepping 1 us .. 1e11 us per reading, on both builds. Every run is followed, on the same scheduler and under the same options, by a fixed second computation and by a call whose argument cannot be rendered (repr raises RecursionError). Metamorphic oracle: outcome, every transcript, flush compositions and the context event log of all three must be identical to the default-options run.",
      "Trusted: tie-freeness of generated programs (distinct constant priority per kind), the harness clock replacing asynq.scheduler.utime. Diagnostic text is only required to be produced without raising.",
      "metamorphic property-based testing: same generated program under enumerated option configurations and generated clock magnitudes must yield the identical observable trace",
      "DESIGN.md 5/C20")

check("C10",
      "Generated operation sequences (value, error, call, is_computed, set_value, set_error, reset_unsafe, subscribe with well-behaved, raising or one-shot self-unsubscribing callbacks) on each of 14 future kinds (Future with returning/raising provider, ConstFuture, ErrorFuture, AsyncTask returning/raising/blocking on a batch, an AsyncTask that is suspended mid-body -- with or without clean-up code that fails when its generator is closed -- operated on by a sibling task, batches with succeeding/failing flush, their items, DebugBatchItem) are executed against the real object and an explicit three-state reference model; every return value / exception, the stored outcome after rejected set_* calls, the number of runs of the underlying computation, and the set of subscribers notified per completion (each exactly once, after the outcome is visible, even if another raises or removes itself) are compared after every step. A second, scheduler-driven campaign runs generated programs in which one uncomputed Future(provider) object sits in several places of one computation (twice in a yield, in a parent and its child, across a synchronous re-entry): the provider runs once, every consumer sees the one outcome (sequential reference), the subscriber is notified once.",
      "Trusted: the reference model in harness/props/c10.py (soundness notes encoded: error() on a pending raising lazy Future propagates once; sinking hooks of Const/ErrorFuture; natural recomputation after reset_unsafe only for Future).",
      "model-based testing: generated operation histories against an explicit reference state machine (stateful PBT, shrinkable op lists)",
      "DESIGN.md 5/C10")
check("C11",
      "Generated operation sequences (add-item, flush, cancel with/without error, item.value(), batch.value()/error(), state queries) on a README-style BatchBase subclass with a generated flush behaviour (per item: set value / set error / leave unset; then return / raise Exception / raise BaseException / cancel itself; optionally create a new item while flushing; error instances may be falsy) and on the built-in DebugBatch, against a reference lifecycle model: flush never raises for a failing body, second flush raises BatchingError, cancel never raises, no item joins a finished batch, every item complete (value > flush/cancel error > AssertionError) when the batch's completion is announced exactly once, body runs at most once, the batch stops being the active batch before its body runs and items created during the flush join a fresh pending batch.",
      "Trusted: the reference lifecycle model in harness/props/c11.py.",
      "model-based testing: generated operation histories with generated flush behaviours against a reference lifecycle model",
      "DESIGN.md 5/C11")

check("C12",
      "Two generators of call/dirty/completion interleavings against a reference in-flight table: (timed) histories executed inside one computation on a round clock -- caller tasks wait w rounds, then call key k of a deduplicated function / a second function with the same qualified name (closures of one factory) / method on a truthy or a falsy instance / static method with a positional / keyword / explicit-default spelling, or call dirty(k); bodies last r(k) rounds, optionally fail, optionally first catch a failed dependency and then block, optionally dirty their own key, and optionally re-enter themselves once with the same key; the two key values are -1 and -2 (equal hashes); (toplevel) histories of t = f.asynq(k), t.value(), dirty(k) outside any task. Oracle: a call returns the identical task object iff an entry for the normalised key exists, was not dirtied and is not complete; body-run counters per key; every sharer receives the same value/error; different keys, functions and instances never share.",
      "Trusted: the in-flight table model. When a call and the completion of the in-flight task fall in the same round the model accepts both outcomes (counted as ties).",
      "model-based testing of generated timed histories (deterministic round clock) and top-level operation histories against a reference table",
      "DESIGN.md 5/C12")
check("C13",
      "Generated call histories over small key spaces (argument values include -1 and -2, whose hashes are equal), four signatures (positional, default, keyword-only), every spelling, blocking/raising bodies: alru_cache(maxsize 1-4, default key or custom key_fn) on functions and methods, acached_per_instance on up to 3 instances with instance death, against reference caches keyed by inspect.signature(...).bind(...) with defaults applied (LRU order/capacity, failures not stored, per-instance independence, cache vanishes with the instance); alazy_constant(ttl) histories of call / clock advance / dirty on a harness clock against a ttl cell model (exactly one recomputation per dirty/expiry).",
      "Trusted: inspect.signature binding as the notion of 'normalised arguments'; the harness clock replacing asynq.tools.utime. *args signatures are not generated (qcore.get_args_tuple, a dependency, mishandles them).",
      "model-based testing: generated call histories against reference caches (OrderedDict LRU / per-instance dict / ttl cell)",
      "DESIGN.md 5/C13")
check("C14",
      "Generated inputs (ints, None, unorderable objects with equal keys, objects that compare equal yet have different keys; list / tuple / one-shot iterator; immediate or batch-blocking key/predicate; reverse; varargs and single-iterable forms; bad inputs) for amap, afilter, afilterfalse, asorted, amax, amin, asift compared by object identity with map/filter/filterfalse/sorted/max/min/a two-list partition, same exception type on bad input, exactly one flush per helper call with a blocking key; aretry over the enumerated grid k in 0..6 x max_tries in 0..6 x position of an unlisted exception x exception spec x blocking body x one invocation or two in flight together: body-run count min(k+1, max_tries), re-raise of anything else immediately, arguments passed through.",
      "Trusted: Python's built-ins as the reference.",
      "differential property-based testing against the built-ins + exhaustive enumeration of the aretry grid",
      "DESIGN.md 5/C14")
check("C17",
      "Generated async-generator bodies (operation lists over Value / await constant / await batch item / await child task / await a dict, tuple or list of futures / bare yield; trailing awaits, no Values, empty; optionally consumed through an outer async generator) with consumers list_of_generator, repeated take_first(n) (0 <= n <= len+2) on one generator, manual next() misuse and advancing after exhaustion, against a list model with a position pointer: exactly the Values in order, take_first(gen, 0) == [] without advancing, bound on how far the body has advanced, END_OF_GENERATOR never in a result, RuntimeError on premature advance, StopIteration repeatedly after exhaustion.",
      "Trusted: the list/pointer model. Raising bodies are not generated.",
      "model-based property testing of generated generator bodies and consumer call sequences",
      "DESIGN.md 5/C17")

check("C09",
      "The finite matrix decorator {asynq, asynq pure, async_proxy, asynq+sync_fn, async_proxy+sync_fn, make_async_decorator over @asynq(), make_async_decorator over a pure async function, deduplicate, aretry, alru_cache, acached_per_instance} x binding {function, via instance, via class, via subclass instance, classmethod, staticmethod} x signature {(x), (x, y=10), (x, *, z=20), (x, y=10, *, z=20)} x body {plain, generator with child yield, batch-blocking, raising} is built from generated source and enumerated exhaustively (every cell, two spellings, plus an instance whose __bool__ is False for the instance bindings; another instance of the same class always touches the attribute first), and Hypothesis additionally draws cells with generated argument values and positional/keyword/default spellings. Oracle: the undecorated body applied to the explicitly bound receiver and normalised arguments; sync call, .asynq().value(), yield from a task, async_call (both forms), get_async_fn(f)(...), get_async_or_sync_fn(f)(...) must all equal it (with sync_fn the sync call equals sync_fn's outcome); is_async_fn / is_pure_async_fn / has_async_fn must equal the cell's ground truth.",
      "Trusted: the generated source templates and the expected-outcome formula in harness/props/c09.py. Function-style wrappers are exercised on functions and instance methods only.",
      "exhaustive enumeration of a finite calling-convention matrix + property-based testing of argument spellings, differential against direct evaluation of the body",
      "DESIGN.md 5/C09")
check("C15",
      "Batch-free generated programs (trees of tasks, constant futures, futures whose value is an exception instance, None, functions with an explicit asyncio_fn, an async_proxy without one used with several arguments, async_call on @asynq / plain / pure functions, nested/empty tuple-list-dict structures, raises and try/except at any level), entered through a function, a bound method or an async_proxy: the same generated body is run by fn() under the asynq scheduler and by a driver coroutine awaiting fn.asyncio() under asyncio.run; both outcomes and every task's transcript must equal the sequential reference (a plain synchronous call of an @asynq() function inside a body must succeed under asynq and raise RuntimeError under asyncio); a monitor asserts that every task yielded alongside has finished when a failure is delivered at a yield; is_asyncio_mode() must be off before and after (also on failure), on inside bodies under asyncio and off under asynq; the same driver coroutine then awaits a plain (non-generator) function that returns or raises and probes the flag and a synchronous call again.",
      "Trusted: reference interpreter; the driver coroutine observing the contextvar in the same context. ErrorFuture / lazy Future / batch items / result() are outside the property's stated domain and not generated.",
      "differential property-based testing: one generated body under two engines (asynq scheduler vs asyncio event loop) and a sequential reference",
      "DESIGN.md 5/C15")

check("C16",
      "2-5 (quick) / 2-16 (thorough) generated tie-free programs (harness batch kinds, DebugBatchItem, contexts, failures, synchronous re-entry, items computed out of band so that stale batches are left for the scheduler) plus a task object created by the starting thread and computed by the worker thread, plus a deduplicated function called with the same arguments in every thread (even threads hold an in-flight task across sync points and ask for it again, odd threads call dirty() for the same key in between), with COLLECT_PERF_STATS on and no reset of any per-thread state by the workload, run on as many threads: (turnstile) every body statement, every flush body and every get_priority call during batch selection is a sync point and Hypothesis draws the sequence of thread turns, so the interleaving is deterministic, replayable and shrinkable; (free-running) switch interval 1e-6 s, barrier start, repeated runs. Oracle per thread: outcome, transcripts, statement sequence, flush compositions, context events, profiler entries (count, counters, names) and deduplicated-body runs equal the same program run alone on a fresh thread; scheduler objects pairwise distinct; the active task is always one of the thread's own; a DebugBatchItem's batch holds only own-thread items.",
      "Trusted: tie-freeness of the programs; the oracle is schedule independent. OS preemption points inside asynq are only sampled (free-running mode).",
      "property-based testing with a harness-owned (generated) thread schedule + free-running stress; metamorphic oracle 'concurrent run = solo run'",
      "DESIGN.md 5/C16")
check("C18",
      "(glue) chains of distinct generated functions written to real source files (depth 1-8 quick / -40 thorough; raise at any level, directly or in a helper, before/after blocking; intermediate levels that catch and re-raise or catch and continue; awaited by yield, in a tuple, called synchronously, or created by a helper task that has finished before the level runs): the escaping exception's traceback restricted to generated functions must be exactly one frame per task level in call order ending at the raising line, and format_error must render it; (stack) format_asynq_stack() inside every level names that task and every creator, outermost first; (filter) filter_traceback on generated line lists (complete, truncated and sliced boilerplate runs, foreign lines containing pattern substrings) equals an independently written reference rewriter and keeps every other line in order; (totality) an enumerated matrix of 39 object kinds/lifecycle states (including a task blocked on a chain of 1500 blocked tasks, and the scheduler while running it) x 7 renderings (str, repr, debug.str, debug.repr, dump at three indents) and 14 error kinds x highlighting x filtering for format_error/dump_error must never raise.",
      "Trusted: the reference rewriter and the expected-frame rule. User objects whose own __repr__ raises are not generated.",
      "property-based testing of generated call chains (real source files) + differential against a reference rewriter + exhaustive enumeration of an object-state x rendering matrix",
      "DESIGN.md 5/C18")
check("C19",
      "The matrix target {module function, instance method, classmethod, staticmethod, plain attribute} x replacement {default mock, plain function, lambda, bound method, callable object, new_callable mock factory, new_callable callable class, non-callable} x activation {with, function decorator, class decorator, start/stop, stopall} x exit {normal, exception} x {patch by string, patch.object} is enumerated exhaustively (each callable replacement also with a result that is itself a future object, which every convention must hand back as it is); Hypothesis draws nested/sequential patch histories (start, start of an overlapping patch that installs the very same replacement object, stop, stopall, re-activation of a stopped patcher, calls) on one target with generated arguments. Oracle inside: sync call, .asynq().value(), yield from a task and asyncio.run(.asyncio()) each reach the replacement exactly once with exactly the given arguments (preceded by the instance only where Python's descriptor protocol binds it) and return its result; a non-callable is installed as is. After every exit path and after each level of nesting unwinds the owner's __dict__ entry is the previous object / finally the original object, which behaves as before.",
      "Trusted: the expected-arguments rule (descriptor protocol) in harness/props/c19.py. new_callable is exercised as documented by the standard library.",
      "exhaustive enumeration of a finite patching matrix + model-based nesting histories",
      "DESIGN.md 5/C19")

for pid in ["C%02d" % i for i in range(1, 21)]:
    if pid not in CHECKS:
        PENDING[pid] = "check under construction in this framework (designed in DESIGN.md section 5, not yet registered)"

m = {
    "version": 1,
    "setup_cmd": "./setup.sh",
    "hooks": {
        "guard": "QUORA_ASYNQ_VERIF",
        "enable": "no source hooks are needed: every observation point is public API or a module global looked up at call time; checks build /repo's working tree twice (pure Python and Cython) into a scratch directory and import from there",
        "baseline_off_cmd": "cd /repo && /venv/bin/python -m pytest -ra -q -p no:cacheprovider --timeout=900 --continue-on-collection-errors",
        "source_commits": [],
        "add_only": True,
    },
    "engines": [
        {"name": "E1 program engine", "path": "harness/e1", "serves_properties": ["C01", "C02", "C03", "C04", "C05", "C06", "C07", "C08", "C15", "C16", "C20"],
         "kind_free_text": "Hypothesis generator of task-program ASTs, interpreter running them on real asynq with in-body monitors, independent sequential reference interpreter, round simulator, structural reducer"},
        {"name": "runner", "path": "harness/runner.py", "serves_properties": sorted(CHECKS),
         "kind_free_text": "builds py+cy scratch copies of the working tree, runs sharded worker processes under a heartbeat watchdog, merges results, writes evidence, prints VIOLATION / KNOWN-FINDING lines"},
    ],
    "checks": [],
    "not_applicable": [{"property_id": p, "reason": r} for p, r in sorted(PENDING.items())],
    "notes": "All checks are property-based testing / model-based op-sequence testing / exhaustive enumeration of finite matrices (one technique family). exit 2 = harness error (never a violation). Known findings: KNOWN_FINDINGS.txt.",
}
for pid in sorted(CHECKS):
    c = CHECKS[pid]
    m["checks"].append({
        "property_id": pid,
        "quick_cmd": "./vcheck %s --tier quick" % pid,
        "thorough_cmd": "./vcheck %s --tier thorough" % pid,
        "evidence_file": "evidence/%s.json" % pid,
        "replay_cmd_template": "./vcheck %s --replay {path}" % pid,
        "engine": "E1 program engine" if pid in m["engines"][0]["serves_properties"] else "runner",
        "level_claimed": {"category": "exploration", "text": c["text"], "design_ref": c["ref"]},
        "level_note": c["note"],
        "technique": c["technique"],
    })
with open(os.path.join(HERE, "MANIFEST.json"), "w") as fh:
    json.dump(m, fh, indent=1)
    fh.write("\n")
print("checks:", sorted(CHECKS), "pending:", len(PENDING))
