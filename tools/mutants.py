"""Hand-written mutations of quora/asynq used to test the sensitivity of the checks (DESIGN.md 3.9).
NAME -> (file, old, new, [checks that must catch it])"""
M = {}

# ---- C01 -------------------------------------------------------------------------------------
M["unwrap_list_to_tuple"] = ("asynq/async_task.py", "        return [unwrap(item) for item in lst]", "        return tuple([unwrap(item) for item in lst])", ["C01"])
M["unwrap_pair_swapped"] = ("asynq/async_task.py", "            return (unwrap(tpl[0]), unwrap(tpl[1]))", "            return (unwrap(tpl[1]), unwrap(tpl[0]))", ["C01"])
M["unwrap_dict_loses_key"] = ("asynq/async_task.py", "        return {key: unwrap(value) for key, value in dct.items()}", "        return {key: unwrap(value) for key, value in list(dct.items())[:2]}", ["C01"])
M["queue_exit_drops_result"] = ("asynq/async_task.py", "                    self._queue_exit(error.result)", "                    self._queue_exit(None)", ["C01"])
M["call_pure_drops_kwargs"] = ("asynq/decorators.py", "            result = self.fn(*args, **kwargs)\n        return self.task_cls", "            result = self.fn(*args)\n        return self.task_cls", ["C09"])

# ---- C02 -------------------------------------------------------------------------------------
M["is_blocked_failed_dep_unblocks"] = ("asynq/async_task.py", "        for dependency in self._dependencies:\n            if not dependency.is_computed():\n                return True\n        return False",
    "        for dependency in self._dependencies:\n            if dependency.is_computed() and dependency._error is not None:\n                return False\n            if not dependency.is_computed():\n                return True\n        return False", ["C02"])
M["unwrap_list_last_failure_wins"] = ("asynq/async_task.py", "        return [unwrap(item) for item in lst]", "        return [unwrap(item) for item in reversed(lst)][::-1]", ["C02"])
M["error_rewrapped"] = ("asynq/async_task.py", "            )\n        self.set_error(error)", "            )\n        self.set_error(type(error)(*error.args))", ["C02"])
M["batch_flush_error_escapes"] = ("asynq/batching.py", "            if not self.is_computed():\n                self.set_error(error)", "            if not self.is_computed():\n                self.set_error(error)\n            raise", ["C02", "C05"])
M["unwrap_no_typeerror"] = ("asynq/async_task.py", "        raise TypeError(\n            \"Cannot unwrap an object of type '%s': only futures and None are allowed.\"\n            % type(value)\n        )", "        return value", ["C02"])
M["unset_items_not_completed"] = ("asynq/batching.py", "            if not item.is_computed():\n                # We must ensure all batch items are computed\n                item.set_error(", "            if not item.is_computed() and cancelled:\n                # We must ensure all batch items are computed\n                item.set_error(", ["C02", "C05"])

# ---- C04 -------------------------------------------------------------------------------------
M["flush_all_pending"] = ("asynq/scheduler.py", "        self._batches.remove(batch)\n        self._flush_batch(batch)\n        return batch", "        self._batches.remove(batch)\n        self._flush_batch(batch)\n        for other in list(self._batches):\n            self._batches.remove(other)\n            if other.items and not other.is_flushed():\n                self._flush_batch(other)\n        return batch", ["C04"])
M["flush_when_two_pending"] = ("asynq/scheduler.py", "        self._batches.add(batch)\n        return True", "        self._batches.add(batch)\n        if len(self._batches) > 1:\n            self._continue_with_batch()\n        return True", ["C04"])
M["deps_scheduled_not_reset"] = ("asynq/scheduler.py", "                task._dependencies_scheduled = False\n                task._pause_contexts()", "                task._pause_contexts()", ["C04", "C03"])
M["dict_values_not_dependencies"] = ("asynq/async_task.py", "    elif type(value) is dict:\n        for item in value.values():\n            extract_futures(item, result)\n    return result", "    return result", ["C04"])
M["first_dep_only_blocks"] = ("asynq/async_task.py", "        for dependency in self._dependencies:\n            if not dependency.is_computed():\n                return True\n        return False", "        for dependency in self._dependencies:\n            return not dependency.is_computed()\n        return False", ["C04", "C03"])

# ---- C05 -------------------------------------------------------------------------------------
M["priority_reversed"] = ("asynq/scheduler.py", "best_priority < priority", "best_priority > priority", ["C05"])
M["priority_ties_other_way"] = ("asynq/scheduler.py", "best_priority < priority", "best_priority <= priority", [])   # equivalent: must stay quiet
M["wait_for_no_completion_check"] = ("asynq/scheduler.py", "            if task.is_computed():\n                break\n            self._continue_with_batch()", "            self._continue_with_batch()", ["C05"])
M["flush_batch_no_finally"] = ("asynq/scheduler.py", "        finally:\n            self.on_after_batch_flush(batch)\n        return 0", "        except Exception:\n            raise\n        self.on_after_batch_flush(batch)\n        return 0", ["C05"])
M["select_keeps_empty_batches"] = ("asynq/scheduler.py", "            if not batch.items or batch.is_flushed():", "            if batch.is_flushed():", [])

# ---- C03 -------------------------------------------------------------------------------------
M["extract_futures_forward"] = ("asynq/async_task.py", "        i = len(value) - 1\n        while i >= 0:\n            extract_futures(value[i], result)\n            i -= 1", "        for v in value:\n            extract_futures(v, result)", ["C03"])
M["blocked_task_continued"] = ("asynq/scheduler.py", "            if task._dependencies_scheduled:\n", "            if task._dependencies_scheduled and len(task._dependencies) > 2:\n                self._continue_with_task(task)\n            elif task._dependencies_scheduled:\n", ["C03"])
M["continue_returns_without_deps"] = ("asynq/async_task.py", "            if self.is_computed():\n                return\n            if len(self._dependencies) > 0:\n                return", "            return", [])   # equivalent (performance only)
M["execute_recursive"] = ("asynq/scheduler.py", "                        self._tasks.append(dependency)\n", "                        self._tasks.append(dependency)\n                        if isinstance(dependency, AsyncTask):\n                            self._execute(self._tasks.pop())\n", ["C03"])
M["orphan_started"] = ("asynq/decorators.py", "        return self.task_cls(result, self.fn, args, kwargs, **self.kwargs)", "        t = self.task_cls(result, self.fn, args, kwargs, **self.kwargs)\n        import asynq\n        if asynq.scheduler.get_active_task() is not None and len(asynq.scheduler.get_scheduler()._tasks) == 3:\n            asynq.scheduler.get_scheduler()._tasks.insert(0, t)\n        return t", ["C03"])

# ---- C06 / C07 ---------------------------------------------------------------------------------
M["no_pause_on_pop"] = ("asynq/scheduler.py", "                task._dependencies_scheduled = False\n                task._pause_contexts()", "                task._dependencies_scheduled = False", ["C06"])
M["resume_after_continue"] = ("asynq/scheduler.py", "    def _continue_with_task(self, task):\n        task._resume_contexts()\n        old_task = self.active_task", "    def _continue_with_task(self, task):\n        old_task = self.active_task", ["C06"])
M["deps_pushed_without_resume"] = ("asynq/scheduler.py", "                task._dependencies_scheduled = True\n                task._resume_contexts()", "                task._dependencies_scheduled = True", ["C06"])
M["pause_in_entry_order"] = ("asynq/async_task.py", "        for ctx in reversed(list(self._contexts.values())):", "        for ctx in list(self._contexts.values()):", ["C07"])
M["resume_in_reverse_order"] = ("asynq/async_task.py", "        error = None\n        for ctx in self._contexts.values():", "        error = None\n        for ctx in reversed(list(self._contexts.values())):", ["C07"])
M["exit_skips_pause_on_exception"] = ("asynq/contexts.py", "            leave_context(self, self._active_task)\n            self.pause()\n            del self._active_task", "            leave_context(self, self._active_task)\n            if ty is None:\n                self.pause()\n            del self._active_task", ["C06", "C07"])
M["pause_restores_new_value"] = ("asynq/scoped_value.py", "    def pause(self):\n        self._target._value = self._old_value\n\n    def __repr__(self):\n        return \"_AsyncScopedValueOverrideContext", "    def pause(self):\n        self._target._value = self._value\n\n    def __repr__(self):\n        return \"_AsyncScopedValueOverrideContext", ["C07"])
M["resume_does_not_save_old"] = ("asynq/scoped_value.py", "    def resume(self):\n        self._old_value = self._target._value\n        self._target._value = self._value", "    def resume(self):\n        if self._old_value is None:\n            self._old_value = self._target._value\n        self._target._value = self._value", [])   # equivalent inside the property's domain (DESIGN 3.9)
M["nonasync_pause_is_noop"] = ("asynq/contexts.py", "    def pause(self):\n        assert False, \"Task %s cannot yield while %s is active\" % (\n            self._active_task,\n            self,\n        )\n\n    def resume(self):\n        assert False", "    def pause(self):\n        pass\n\n    def resume(self):\n        assert False", ["C06"])
M["nonasync_fails_on_enter_if_pending"] = ("asynq/contexts.py", "    def __enter__(self):\n        if not is_asyncio_mode():\n            self._active_task = enter_context(self)\n\n    def __exit__(self, typ, val, tb):", "    def __enter__(self):\n        if not is_asyncio_mode():\n            self._active_task = enter_context(self)\n            assert not asynq.scheduler.get_scheduler()._batches\n\n    def __exit__(self, typ, val, tb):", ["C06"])
M["attr_override_pause_noop_second_time"] = ("asynq/scoped_value.py", "    def pause(self):\n        setattr(self._target, self._property_name, self._old_value)", "    def pause(self):\n        if getattr(self, '_p', 0) < 2:\n            setattr(self._target, self._property_name, self._old_value)\n        self._p = getattr(self, '_p', 0) + 1", ["C07"])

# ---- C08 -------------------------------------------------------------------------------------
M["active_task_not_restored"] = ("asynq/scheduler.py", "        self.active_task = old_task\n", "        pass\n", ["C08"])
M["stack_limit_no_reset"] = ("asynq/scheduler.py", "                self.reset()\n                debug.dump(self)", "                debug.dump(self)", [])   # masked by wait_for dropping its entries when an exception escapes
M["computed_future_not_popped"] = ("asynq/scheduler.py", "            if task.is_computed():\n                self._tasks.pop()\n            elif isinstance(task, AsyncTask):", "            if task.is_computed() and len(self._tasks) != init_num_tasks + 3:\n                self._tasks.pop()\n            elif task.is_computed():\n                self._tasks.insert(0, self._tasks.pop())\n                init_num_tasks += 1\n            elif isinstance(task, AsyncTask):", ["C08"])
M["d10_reverted"] = ("asynq/scheduler.py", "        if task.is_computed():\n            # A context failed to resume", "        if False:\n            # A context failed to resume", ["C08"])
M["d12_reverted"] = ("asynq/scheduler.py", "            del self._tasks[num_tasks:]\n", "            pass\n", ["C08"])
M["d1_reverted"] = ("asynq/scheduler.py", "                    if not task.is_computed():\n                        raise\n                self._tasks.pop()", "                    raise\n                self._tasks.pop()", ["C01", "C02", "C08"])
