"""Hand-written mutations of quora/asynq used to test the sensitivity of the checks (DESIGN.md 3.9).
NAME -> (file, old, new, [checks that must catch it])"""
M = {}

# ---- C01 -------------------------------------------------------------------------------------
M["unwrap_list_to_tuple"] = ("asynq/async_task.py", "        return [unwrap(item) for item in lst]", "        return tuple([unwrap(item) for item in lst])", ["C01"])
M["unwrap_pair_swapped"] = ("asynq/async_task.py", "            return (unwrap(tpl[0]), unwrap(tpl[1]))", "            return (unwrap(tpl[1]), unwrap(tpl[0]))", ["C01"])
M["unwrap_dict_loses_key"] = ("asynq/async_task.py", "        return {key: unwrap(value) for key, value in dct.items()}", "        return {key: unwrap(value) for key, value in list(dct.items())[:2]}", ["C01"])
M["queue_exit_drops_result"] = ("asynq/async_task.py", "                    self._queue_exit(error.result)", "                    self._queue_exit(None)", ["C01"])
M["call_pure_drops_kwargs"] = ("asynq/decorators.py", "            result = self.fn(*args, **kwargs)\n        return self.task_cls", "            result = self.fn(*args)\n        return self.task_cls", ["C09"])
