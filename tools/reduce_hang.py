#!/venv/bin/python
"""Shrinks a replay file whose case makes asynq hang: greedy structural reduction where
'still failing' = the single-case replay does not finish within T seconds (or exhausts memory).

    tools/reduce_hang.py PROP replay.json [--build py] [--t 5]
"""
import importlib, json, os, subprocess, sys, tempfile, glob
HERE = os.path.dirname(os.path.dirname(os.path.abspath(__file__)))
sys.path.insert(0, HERE)
from harness import build as build_mod


def hangs(prop, bdir, bname, doc, t):
    with tempfile.NamedTemporaryFile("w", suffix=".json", delete=False) as fh:
        json.dump(doc, fh)
        path = fh.name
    out = path + ".out"
    env = dict(os.environ, PYTHONPATH=HERE, PYTHONHASHSEED="0")
    cmd = "ulimit -v 3000000; exec /venv/bin/python -m harness.worker %s --builddir %s --build %s --replay %s --out %s" % (prop, bdir, bname, path, out)
    try:
        p = subprocess.run(["sh", "-c", cmd], env=env, cwd=HERE, timeout=t, stdout=subprocess.DEVNULL, stderr=subprocess.PIPE, text=True)
        res = "MemoryError" in p.stderr
    except subprocess.TimeoutExpired:
        res = True
    for f in (path, out):
        if os.path.exists(f):
            os.remove(f)
    return res


def main():
    prop, path = sys.argv[1], sys.argv[2]
    bname = sys.argv[sys.argv.index("--build") + 1] if "--build" in sys.argv else "py"
    t = float(sys.argv[sys.argv.index("--t") + 1]) if "--t" in sys.argv else 5
    info = build_mod.ensure()
    doc = json.load(open(path))
    # import the property module only for its reducer (no asynq needed for that)
    sys.path.insert(0, info["py"])
    mod = importlib.import_module("harness.props.%s" % prop.lower())
    sub = [s for s in mod.SUBS if s.name == doc["sub"]][0]
    assert hangs(prop, info[bname], bname, doc, t), "does not hang"
    progress = True
    while progress:
        progress = False
        for cand in sub.reduce(doc["case"]):
            d2 = dict(doc, case=cand)
            if hangs(prop, info[bname], bname, d2, t):
                doc = d2
                progress = True
                print("smaller: %d bytes" % len(json.dumps(cand)), flush=True)
                break
    out = path.replace(".json", ".min.json")
    json.dump(doc, open(out, "w"), indent=1, sort_keys=True)
    print(out)
    print(json.dumps(doc["case"]))


if __name__ == "__main__":
    main()
