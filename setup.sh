#!/bin/sh
# Offline setup: the checks need Hypothesis (and Cython, already required by the repository's
# own build) importable from /venv.  Nothing is fetched from a package index.
cd "$(dirname "$0")" || exit 2
export PIP_NO_INDEX=1
if ! /venv/bin/python -c "import hypothesis" 2>/dev/null; then
    /venv/bin/pip install --no-index --find-links /opt/veriftools/wheels hypothesis || exit 1
fi
/venv/bin/python -c "import hypothesis, Cython, qcore; print('hypothesis', hypothesis.__version__, 'Cython', Cython.__version__)" || exit 1
mkdir -p evidence replays/found
# warm the build cache (rebuilt by every check anyway if the tree changes)
/venv/bin/python -m harness.build
